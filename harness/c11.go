package main

import (
	"context"
	"encoding/json"
	"fmt"
	"sort"
	"strconv"
	"time"

	"github.com/go-fed/activity/streams"
)

// C11: hostile input. Grammar-based mutations of JSON values: each member at each depth removed, nulled,
// emptied, or replaced by a value of another kind.

type jpath []interface{} // string keys and int indexes

func pathsOf(v interface{}, pre jpath, out *[]jpath) {
	switch x := v.(type) {
	case map[string]interface{}:
		ks := make([]string, 0, len(x))
		for k := range x {
			ks = append(ks, k)
		}
		sort.Strings(ks)
		for _, k := range ks {
			p := append(append(jpath{}, pre...), k)
			*out = append(*out, p)
			pathsOf(x[k], p, out)
		}
	case []interface{}:
		for i, e := range x {
			p := append(append(jpath{}, pre...), i)
			*out = append(*out, p)
			pathsOf(e, p, out)
		}
	}
}

var replacements = []struct {
	name string
	mk   func() interface{}
}{
	{"null", func() interface{} { return nil }},
	{"emptyString", func() interface{} { return "" }},
	{"emptyArray", func() interface{} { return []interface{}{} }},
	{"emptyObject", func() interface{} { return map[string]interface{}{} }},
	{"number", func() interface{} { return 5.0 }},
	{"bool", func() interface{} { return true }},
	{"dash", func() interface{} { return "-" }},
	{"relative", func() interface{} { return "not an iri" }},
	{"objectNoId", func() interface{} { return map[string]interface{}{"type": "Person", "name": "x"} }},
	{"objectBadId", func() interface{} { return map[string]interface{}{"type": "Person", "id": 5.0} }},
	{"unknownType", func() interface{} { return map[string]interface{}{"type": "Gizmo", "id": "https://b.example/gizmo"} }},
	{"arrayMixed", func() interface{} { return []interface{}{5.0, nil, "x", map[string]interface{}{}} }},
	{"iriMissing", func() interface{} { return "https://b.example/gone" }},
	{"iriGarbage", func() interface{} { return "https://b.example/garbage" }},
	{"iriUnknown", func() interface{} { return "https://b.example/unknown" }},
	{"iriIncomplete", func() interface{} { return "https://b.example/incomplete" }},
}

// apply mutation `kind` ("remove" or a replacement name) at path p of a deep copy of v
func mutateAt(v interface{}, p jpath, kind string) interface{} {
	c := deepCopy(v)
	if len(p) == 0 {
		return c
	}
	var parent interface{} = c
	for _, s := range p[:len(p)-1] {
		switch x := parent.(type) {
		case map[string]interface{}:
			parent = x[s.(string)]
		case []interface{}:
			parent = x[s.(int)]
		}
	}
	var nv interface{}
	remove := kind == "remove"
	for _, r := range replacements {
		if r.name == kind {
			nv = r.mk()
		}
	}
	last := p[len(p)-1]
	switch x := parent.(type) {
	case map[string]interface{}:
		if remove {
			delete(x, last.(string))
		} else {
			x[last.(string)] = nv
		}
	case []interface{}:
		if !remove {
			x[last.(int)] = nv
		} else {
			x[last.(int)] = nil
		}
	}
	return c
}

func mutationKinds() []string {
	ks := []string{"remove"}
	for _, r := range replacements {
		ks = append(ks, r.name)
	}
	return ks
}

func pathString(p jpath) string {
	s := ""
	for _, e := range p {
		switch x := e.(type) {
		case string:
			s += "/" + x
		case int:
			s += "/" + strconv.Itoa(x)
		}
	}
	return s
}

// a random mutation of v (and its description)
func (g *sgen) mutate(v interface{}) (interface{}, string) {
	var ps []jpath
	pathsOf(v, nil, &ps)
	if len(ps) == 0 {
		return v, "none"
	}
	p := ps[g.r.intn(len(ps))]
	ks := mutationKinds()
	k := ks[g.r.intn(len(ks))]
	return mutateAt(v, p, k), k + "@" + pathString(p)
}

func decodeOnce(doc interface{}, raw string) J {
	res := J{}
	done := make(chan struct{})
	go func() {
		defer close(done)
		defer func() {
			if r := recover(); r != nil {
				res["res"] = "panic"
				res["msg"] = fmt.Sprint(r)
			}
		}()
		var m map[string]interface{}
		if raw != "" {
			if err := json.Unmarshal([]byte(raw), &m); err != nil {
				res["res"] = "notjson"
				return
			}
		} else {
			mm, ok := doc.(map[string]interface{})
			if !ok {
				res["res"] = "notobject"
				return
			}
			m = mm
		}
		t, err := streams.ToType(context.Background(), m)
		if err != nil {
			res["res"] = "err"
			return
		}
		if _, err := streams.Serialize(t); err != nil {
			res["res"] = "serr"
			return
		}
		res["res"] = "ok"
	}()
	if !waitDone(done, 5*time.Second) {
		return J{"res": "hang"}
	}
	return res
}

func init() {
	runners["c11-decode"] = &runner{
		prop: "C11",
		gen: func(r *rng, thorough bool, args []string, yield func(in J)) {
			perExample := 40
			if len(args) >= 1 {
				perExample, _ = strconv.Atoi(args[0])
			}
			kinds := mutationKinds()
			for ei, exs := range vocabExamples {
				var ex interface{}
				json.Unmarshal([]byte(exs), &ex)
				yield(J{"k": "decode", "ex": ei, "mut": "none", "doc": ex})
				var ps []jpath
				pathsOf(ex, nil, &ps)
				if thorough {
					for _, p := range ps {
						for _, k := range kinds {
							yield(J{"k": "decode", "ex": ei, "mut": k + "@" + pathString(p), "doc": mutateAt(ex, p, k)})
						}
					}
					continue
				}
				for n := 0; n < perExample && len(ps) > 0; n++ {
					p := ps[r.intn(len(ps))]
					k := kinds[r.intn(len(kinds))]
					yield(J{"k": "decode", "ex": ei, "mut": k + "@" + pathString(p), "doc": mutateAt(ex, p, k)})
				}
			}
			// every literal-valued property with hostile literals
			hostile := []interface{}{"", "-", "P", "-P", "PT", "P1", "T", "2020", "2020-01-01T", "99999999999999999999", -1.0, 1e300, "\u0000", []interface{}{}, map[string]interface{}{}, nil, true,
				// near-valid lexical forms of every literal kind: legal-but-unusual, trailing garbage, out-of-range fields
				"PT0.5S", "P1W", "PT2H ", " PT2H", "P1Y2", "P-1Y", "PT1H1H", "P1Y2M3DT4H5M6.7S", "-PT", "+P1D", "P1.5Y", "PT1S\n", "P99999999999Y",
				"2020-13-01T00:00:00Z", "2020-01-01T25:00:00Z", "2020-01-01t00:00:00z", "2020-01-01T00:00:00", "2020-01-01T00:00Z", "0000-00-00T00:00:00Z", "2020-01-01T00:00:00+99:99", "2020-01-01T00:00:00.123456789123Z",
				1.5, 1e20, 4294967296.0, 9007199254740993.0, "5", "en--us", "x", "text/", "/plain", "text/plain; q", ";", "https://", "http://[::1", "mailto:", "#frag", "?q"}
			// on a type that has the property (so that the member is decoded, not kept as an unknown member)
			hasProp := func(tn, prop string) bool {
				for _, p := range typeProps[tn] {
					if p == prop {
						return true
					}
				}
				return false
			}
			hostFor := func(prop string) string {
				if hasProp("Note", prop) {
					return "Note"
				}
				for _, tn := range sortedTypeNames() {
					if hasProp(tn, prop) {
						return tn
					}
				}
				return "Note"
			}
			for _, pe := range propTable {
				host := hostFor(pe.Name)
				for _, h := range hostile {
					yield(J{"k": "decode", "ex": -1, "mut": "literal@" + pe.Name, "doc": map[string]interface{}{"@context": allCtx, "type": host, pe.Name: h}})
					yield(J{"k": "decode", "ex": -1, "mut": "literalArr@" + pe.Name, "doc": map[string]interface{}{"@context": allCtx, "type": host, pe.Name: []interface{}{h, h}}})
				}
			}
			// arbitrary byte strings
			nb := 300
			if thorough {
				nb = 5000
			}
			alphabet := []byte("{}[]\":,-0123456789.eE\\ntruefalsnul typeidPTHMSYD@/")
			for n := 0; n < nb; n++ {
				l := 1 + r.intn(60)
				b := make([]byte, l)
				for i := range b {
					if r.chance(85) {
						b[i] = alphabet[r.intn(len(alphabet))]
					} else {
						b[i] = byte(r.intn(256))
					}
				}
				yield(J{"k": "decode", "ex": -2, "mut": "bytes", "raw": strconv.Quote(string(b))})
			}
		},
		run: func(in J) interface{} {
			raw := ""
			if q, ok := in["raw"].(string); ok {
				raw, _ = strconv.Unquote(q)
				if raw == "" {
					raw = " "
				}
			}
			return decodeOnce(in["doc"], raw)
		},
	}
}
