package main

import (
	"context"
	"fmt"
	"reflect"
	"sort"
	"strings"
	"time"

	"github.com/go-fed/activity/streams"
	"github.com/go-fed/activity/streams/vocab"
)

// C12: where does a member land (typed accessor vs unknown), which kind does an
// element take, and what do literal accessors return.

var allCtx = []interface{}{"https://www.w3.org/ns/activitystreams", "https://w3id.org/security/v1", "http://joinmastodon.org/ns", "https://forgefed.peers.community/ns"}

func propByName(n string) *propEntry {
	for i := range propTable {
		if propTable[i].Name == n {
			return &propTable[i]
		}
	}
	return nil
}

func isNilValue(v reflect.Value) bool {
	switch v.Kind() {
	case reflect.Interface, reflect.Ptr, reflect.Map, reflect.Slice:
		return v.IsNil()
	}
	return false
}

// getProp calls Get<Vocab><Prop>() by name; ok=false when the type has no such accessor.
func getProp(t vocab.Type, getter string) (val reflect.Value, ok bool) {
	m := reflect.ValueOf(t).MethodByName(getter)
	if !m.IsValid() {
		return reflect.Value{}, false
	}
	out := m.Call(nil)
	return out[0], true
}

var litIs = map[string]string{
	"IsXMLSchemaString": "xsd:string", "IsXMLSchemaDateTime": "xsd:dateTime", "IsXMLSchemaAnyURI": "xsd:anyURI",
	"IsXMLSchemaNonNegativeInteger": "xsd:nonNegativeInteger", "IsXMLSchemaFloat": "xsd:float",
	"IsXMLSchemaBoolean": "xsd:boolean", "IsRDFLangString": "rdf:langString", "IsXMLSchemaDuration": "xsd:duration",
	"IsRFCRfc5988": "rfc:rfc5988", "IsRFCRfc2045": "rfc:rfc2045", "IsRFCBcp47": "rfc:bcp47",
}

// elemLabel classifies one element (iterator or functional slot) through its public accessors only.
func elemLabel(e reflect.Value) string {
	if e.Kind() == reflect.Interface {
		e = e.Elem()
	}
	call0 := func(name string) (reflect.Value, bool) {
		m := e.MethodByName(name)
		if !m.IsValid() || m.Type().NumIn() != 0 || m.Type().NumOut() != 1 {
			return reflect.Value{}, false
		}
		return m.Call(nil)[0], true
	}
	var labels []string
	if v, ok := call0("IsIRI"); ok && v.Bool() {
		labels = append(labels, "iri")
	}
	if v, ok := call0("GetType"); ok && !isNilValue(v) {
		if tn, ok := v.Interface().(vocab.Type); ok && tn != nil {
			labels = append(labels, "ty:"+tn.GetTypeName())
		}
	}
	tp := e.Type()
	for i := 0; i < tp.NumMethod(); i++ {
		n := tp.Method(i).Name
		if k, ok := litIs[n]; ok {
			if v, ok := call0(n); ok && v.Bool() {
				// IsIRI and IsXMLSchemaAnyURI coincide on anyURI-kind properties
				if k == "xsd:anyURI" && len(labels) > 0 && labels[0] == "iri" {
					labels[0] = "lit:xsd:anyURI"
					continue
				}
				labels = append(labels, "lit:"+k)
			}
		}
	}
	if len(labels) == 0 {
		return "unknown"
	}
	sort.Strings(labels)
	return strings.Join(labels, "+")
}

func decodeDoc(doc map[string]interface{}) (t vocab.Type, err error, panicked string) {
	defer func() {
		if r := recover(); r != nil {
			panicked = fmt.Sprint(r)
		}
	}()
	t, err = streams.ToType(context.Background(), doc)
	return
}

func runC12(in J) interface{} {
	switch in["k"] {
	case "tp": // member landing: typed accessor vs unknown
		T, P, key := in["type"].(string), in["prop"].(string), in["key"].(string)
		doc := J{"@context": allCtx, "type": T, key: in["value"]}
		if typeByName(T) == nil || propByName(P) == nil {
			return J{"error": "bad case"}
		}
		t, err, pan := decodeDoc(doc)
		if pan != "" {
			return J{"where": "panic"}
		}
		if err != nil {
			return J{"where": "error"}
		}
		pe := propByName(P)
		obs := J{}
		val, has := getProp(t, pe.Getter)
		inUnknown := false
		if u, ok := t.(interface{ GetUnknownProperties() map[string]interface{} }); ok {
			_, inUnknown = u.GetUnknownProperties()[key]
		}
		switch {
		case has && !isNilValue(val) && !inUnknown:
			obs["where"] = "accessor"
			obs["isList"] = val.MethodByName("Len").IsValid()
			if l := val.MethodByName("Len"); l.IsValid() {
				obs["len"] = l.Call(nil)[0].Int()
			} else {
				obs["len"] = 1
			}
		case inUnknown && (!has || isNilValue(val)):
			obs["where"] = "unknown"
		case has && !isNilValue(val) && inUnknown:
			obs["where"] = "both"
		default:
			obs["where"] = "lost"
		}
		obs["hasAccessor"] = has
		return obs
	case "pk": // kind landing of one element
		P, host := in["prop"].(string), in["host"].(string)
		pe := propByName(P)
		doc := J{"@context": allCtx, "type": host, P: in["value"]}
		t, err, pan := decodeDoc(doc)
		if pan != "" {
			return J{"landed": "panic"}
		}
		if err != nil {
			return J{"landed": "error"}
		}
		val, has := getProp(t, pe.Getter)
		if !has || isNilValue(val) {
			return J{"landed": "absent"}
		}
		if l := val.MethodByName("Len"); l.IsValid() {
			if l.Call(nil)[0].Int() != 1 {
				return J{"landed": fmt.Sprintf("len=%d", l.Call(nil)[0].Int())}
			}
			val = val.MethodByName("At").Call([]reflect.Value{reflect.ValueOf(0)})[0]
		}
		return J{"landed": elemLabel(val)}
	case "lit": // literal denotation through the typed accessor
		kind, text := in["lit"].(string), in["text"]
		var doc J
		switch kind {
		case "duration":
			doc = J{"@context": allCtx, "type": "Video", "duration": text}
		case "dateTime":
			doc = J{"@context": allCtx, "type": "Note", "published": text}
		case "nonNeg":
			doc = J{"@context": allCtx, "type": "Collection", "totalItems": text}
		case "boolean":
			doc = J{"@context": allCtx, "type": "Person", "manuallyApprovesFollowers": text}
		}
		t, err, pan := decodeDoc(doc)
		if pan != "" {
			return J{"res": "panic"}
		}
		if err != nil {
			return J{"res": "error"}
		}
		switch kind {
		case "duration":
			p := t.(interface {
				GetActivityStreamsDuration() vocab.ActivityStreamsDurationProperty
			}).GetActivityStreamsDuration()
			if p == nil || !p.IsXMLSchemaDuration() {
				return J{"res": "notlit"}
			}
			return J{"res": "ok", "val": fmt.Sprint(int64(p.Get()))}
		case "dateTime":
			p := t.(interface {
				GetActivityStreamsPublished() vocab.ActivityStreamsPublishedProperty
			}).GetActivityStreamsPublished()
			if p == nil || !p.IsXMLSchemaDateTime() {
				return J{"res": "notlit"}
			}
			tm := p.Get()
			_, off := tm.Zone()
			return J{"res": "ok", "val": fmt.Sprint(tm.Unix()), "nanos": tm.Nanosecond(), "offMin": off / 60, "utc": tm.UTC().Format(time.RFC3339)}
		case "nonNeg":
			p := t.(interface {
				GetActivityStreamsTotalItems() vocab.ActivityStreamsTotalItemsProperty
			}).GetActivityStreamsTotalItems()
			if p == nil || !p.IsXMLSchemaNonNegativeInteger() {
				return J{"res": "notlit"}
			}
			return J{"res": "ok", "val": fmt.Sprint(p.Get())}
		case "boolean":
			p := t.(interface {
				GetActivityStreamsManuallyApprovesFollowers() vocab.ActivityStreamsManuallyApprovesFollowersProperty
			}).GetActivityStreamsManuallyApprovesFollowers()
			if p == nil || !p.IsXMLSchemaBoolean() {
				return J{"res": "notlit"}
			}
			return J{"res": "ok", "val": fmt.Sprint(p.Get())}
		}
	}
	return J{"error": "unknown case kind"}
}

func probeForKind(kind string) interface{} {
	switch kind {
	case "iri":
		return "https://p.example/v"
	case "iri:urn": // absolute IRIs without an authority
		return "urn:uuid:0a3c1f6e-7b1d-4e57-9a43-0c2f5c1f7d10"
	case "iri:acct":
		return "acct:bob@b.example"
	case "iri:mailto":
		return "mailto:bob@b.example"
	case "xsd:string":
		return "hello world"
	case "xsd:anyURI":
		return "https://p.example/any"
	case "xsd:dateTime":
		return "2020-02-29T12:30:05Z"
	case "xsd:duration":
		return "P1DT5S"
	case "xsd:float":
		return 1.5
	case "xsd:nonNegativeInteger":
		return 3.0
	case "xsd:boolean":
		return true
	case "rdf:langString":
		return J{"en": "hello", "fr": "bonjour"}
	case "rfc:bcp47":
		return "en-US x"
	case "rfc:rfc2045":
		return "text/html x"
	case "rfc:rfc5988":
		return "alternate x"
	case "num:-1":
		return -1.0
	case "obj:untyped":
		return J{"zz": 1.0}
	}
	return nil
}

var litKinds = []string{"iri", "iri:urn", "iri:acct", "iri:mailto", "xsd:string", "xsd:anyURI", "xsd:dateTime", "xsd:duration", "xsd:float", "xsd:nonNegativeInteger", "xsd:boolean", "rdf:langString", "rfc:bcp47", "rfc:rfc2045", "rfc:rfc5988", "num:-1", "obj:untyped"}

func genC12(r *rng, thorough bool, args []string, yield func(in J)) {
	// (type, property) exhaustively, plain key with an IRI and with a 2-element IRI list, Map key with a language map
	for _, t := range typeTable {
		for _, p := range propTable {
			if p.Name == "type" {
				continue // the probe document's own type member
			}
			yield(J{"k": "tp", "type": t.Name, "prop": p.Name, "key": p.Name, "value": "https://p.example/v"})
			yield(J{"k": "tp", "type": t.Name, "prop": p.Name, "key": p.Name, "value": []interface{}{"https://p.example/a", "https://p.example/b"}})
			yield(J{"k": "tp", "type": t.Name, "prop": p.Name, "key": p.Name + "Map", "value": J{"en": "x"}})
		}
	}
	// (property, kind) exhaustively: each type kind, each literal kind, IRI — decoded inside a host type that has the property
	hostOf := map[string]string{}
	for _, p := range propTable {
		for _, t := range typeTable {
			if p.Name == "type" {
				break
			}
			v := t.New()
			if _, ok := getProp(v, p.Getter); ok {
				hostOf[p.Name] = t.Name
				break
			}
		}
	}
	for _, p := range propTable {
		host, ok := hostOf[p.Name]
		if !ok || p.Name == "id" {
			continue
		}
		for _, k := range typeTable {
			val := J{"type": k.Name, "id": "https://p.example/k", "zz": 1.0}
			yield(J{"k": "pk", "prop": p.Name, "host": host, "kind": "ty:" + k.Name, "value": val})
		}
		for _, lk := range litKinds {
			yield(J{"k": "pk", "prop": p.Name, "host": host, "kind": lk, "value": probeForKind(lk)})
		}
	}
	// literal denotation, sampled over the lexical space
	n := 4000
	if thorough {
		n = 100000
	}
	for i := 0; i < n; i++ {
		switch r.intn(4) {
		case 0, 1: // duration
			comps := J{}
			txt := ""
			neg := r.chance(30)
			if neg {
				txt = "-"
			}
			txt += "P"
			big := r.chance(5)
			val := func() int {
				if big {
					return r.intn(2000000000)
				}
				return r.intn(400)
			}
			for _, c := range []string{"Y", "M", "D"} {
				if r.chance(45) {
					v := val()
					comps[c] = v
					txt += fmt.Sprintf("%d%s", v, c)
				}
			}
			if r.chance(60) {
				t := "T"
				any := false
				for _, c := range []string{"H", "m", "S"} {
					if r.chance(50) {
						v := val()
						comps[c] = v
						letter := c
						if c == "m" {
							letter = "M"
						}
						t += fmt.Sprintf("%d%s", v, letter)
						any = true
					}
				}
				if any || r.chance(20) {
					txt += t
				}
			}
			if r.chance(3) {
				txt = r.pick([]string{"", "-", "P", "-P", "PY", "PT", "P1", "1Y", "PT1.5S", "P1Y junk", "p1y", "P-1Y"})
				comps = J{"malformed": true}
			}
			comps["neg"] = neg
			yield(J{"k": "lit", "lit": "duration", "text": txt, "comps": comps})
		case 2: // dateTime
			y := 1 + r.intn(9998)
			if r.chance(70) {
				y = 1960 + r.intn(120)
			}
			mo, d := 1+r.intn(12), 1+r.intn(28)
			if r.chance(25) {
				d = 28 + r.intn(4) // month ends, including invalid ones
			}
			h, mi, s := r.intn(24), r.intn(60), r.intn(60)
			zone := "Z"
			off := 0
			if r.chance(50) {
				oh, om := r.intn(15), r.pick([]string{"00", "30", "45"})
				sign := r.pick([]string{"+", "-"})
				zone = fmt.Sprintf("%s%02d:%s", sign, oh, om)
				var omn int
				fmt.Sscanf(om, "%d", &omn)
				off = oh*60 + omn
				if sign == "-" {
					off = -off
				}
			}
			frac := ""
			nanos := 0
			if r.chance(20) {
				nd := 1 + r.intn(9)
				v := r.intn(1000000000)
				fs := fmt.Sprintf("%09d", v)[:nd]
				frac = "." + fs
				fmt.Sscanf((fs + "000000000")[:9], "%d", &nanos)
			}
			txt := fmt.Sprintf("%04d-%02d-%02dT%02d:%02d:%02d%s%s", y, mo, d, h, mi, s, frac, zone)
			comps := J{"y": y, "mo": mo, "d": d, "h": h, "mi": mi, "s": s, "offMin": off, "nanos": nanos}
			if r.chance(8) { // seconds-less layout
				txt = fmt.Sprintf("%04d-%02d-%02dT%02d:%02d%s", y, mo, d, h, mi, zone)
				comps["s"] = 0
				comps["nanos"] = 0
			}
			yield(J{"k": "lit", "lit": "dateTime", "text": txt, "comps": comps})
		case 3:
			if r.bool() {
				v := float64(r.intn(1000000))
				if r.chance(20) {
					v = float64(r.next() % (1 << 52))
				}
				if r.chance(15) {
					v += 0.5
				}
				if r.chance(10) {
					v = -v
				}
				yield(J{"k": "lit", "lit": "nonNeg", "text": v})
			} else {
				yield(J{"k": "lit", "lit": "boolean", "text": []interface{}{true, false, 0.0, 1.0, 2.0, "true", 0.5}[r.intn(7)]})
			}
		}
	}
}

func init() {
	runners["c12"] = &runner{prop: "C12", gen: genC12, run: runC12}
}
