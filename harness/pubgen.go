package main

import (
	"fmt"
	"sort"
	"strconv"
	"strings"
)

// Generators of pub scenarios, shared by the pub properties (C02..C11, C16, C17, C20).
// A scenario = {cfg, world, steps[, fault]}; the observation = per step {in (model input), obs}.

func runPub(in J) interface{} {
	res := runPubScenario(in)
	var steps []interface{}
	for _, s := range res {
		steps = append(steps, J{"in": s.In, "obs": s.Obs})
	}
	return J{"steps": steps}
}

func step(entry, method, header, path string, body interface{}) J {
	return J{"entry": entry, "method": method, "header": header, "host": hostA, "path": path, "body": body}
}

func fallibleOf(obs interface{}) int {
	st, _ := jmap(obs)["steps"].([]interface{})
	if len(st) == 0 {
		return 0
	}
	last := jmap(jmap(st[len(st)-1])["obs"])
	return intOf(last["fallible"], 0)
}

// yield a scenario and its single-fault variants (faults only in the last step)
func withFaults(sc J, maxFaults int, yield func(in J)) {
	yield(sc)
	if maxFaults == 0 {
		return
	}
	probe := runPub(jmap(deepCopy(sc)))
	steps, _ := jmap(probe)["steps"].([]interface{})
	if len(steps) == 0 {
		return
	}
	before := 0
	if len(steps) > 1 {
		before = intOf(jmap(jmap(steps[len(steps)-2])["obs"])["fallible"], 0)
	}
	n := fallibleOf(probe) - before
	stride := 1
	if maxFaults > 0 && n > maxFaults {
		stride = (n + maxFaults - 1) / maxFaults
	}
	for k := 1; k <= n; k += stride {
		v := jmap(deepCopy(sc))
		sts := v["steps"].([]interface{})
		jmap(sts[len(sts)-1])["fault"] = float64(k)
		v["label"] = fmt.Sprint(sc["label"]) + "/fault" + strconv.Itoa(k)
		yield(v)
	}
}

type family func(g *sgen, i int) J

func famInbox(g *sgen, i int) J {
	ty := inboxTypes[i%len(inboxTypes)]
	w := g.baseWorld()
	w["fedCallbacks"] = g.cbConfig(inboxTypes)
	if g.r.chance(25) {
		w["filter"] = g.r.pick([]string{"all", "none"})
	}
	if g.r.chance(15) {
		w["maxFwdDepth"] = float64(1 + g.r.intn(4))
	}
	a := g.inboxActivity(ty, w)
	if ty == "Follow" && g.r.chance(70) {
		// most Follows are of this inbox's actor and are answered automatically (Accept or Reject, delivered through the
		// real delivery path)
		objs := []interface{}{g.ref(alice, "Person", g.r.chance(25))}
		if g.r.chance(30) {
			objs = append(objs, dave)
		}
		a["object"] = asList(objs)
		if g.r.chance(30) {
			a["actor"] = carol // who follows already
		}
		cfg := jmap(w["fedCallbacks"])
		cfg["onFollow"] = float64(1 + g.r.intn(2))
		var keep []interface{}
		for _, o := range jlist(cfg["other"]) {
			if o != "Follow" {
				keep = append(keep, o)
			}
		}
		cfg["other"] = orEmpty(keep)
	}
	kind := "both"
	if g.r.chance(25) {
		kind = "federating"
	}
	return J{"label": "inbox-" + ty, "cfg": J{"kind": kind}, "world": w,
		"steps": []interface{}{step("postInbox", "POST", g.header(true), "/users/alice/inbox", a)}}
}

func famOutbox(g *sgen, i int) J {
	ty := outboxTypes[i%len(outboxTypes)]
	w := g.baseWorld()
	w["socialCallbacks"] = g.cbConfig(outboxTypes)
	if g.r.chance(15) {
		w["maxDeliveryDepth"] = float64(1 + g.r.intn(4))
	}
	v := g.outboxValue(ty, w)
	kind := "both"
	if g.r.chance(25) {
		kind = "social"
	}
	// the social Create appends missing recipients in Go-map order: calls that follow are compared as a multiset
	return J{"label": "outbox-" + ty, "unordered": ty == "Create", "cfg": J{"kind": kind}, "world": w,
		"steps": []interface{}{step("postOutbox", "POST", g.header(true), "/users/alice/outbox", v)}}
}

func famSend(g *sgen, i int) J {
	ty := outboxTypes[i%len(outboxTypes)]
	w := g.baseWorld()
	w["socialCallbacks"] = g.cbConfig(outboxTypes)
	v := g.outboxValue(ty, w)
	kind := "both"
	if g.r.chance(35) {
		kind = "federating"
	}
	st := J{"entry": "send", "host": hostA, "path": "/users/alice/outbox", "value": v}
	return J{"label": "send-" + ty, "unordered": ty == "Create" && kind == "both", "cfg": J{"kind": kind}, "world": w, "steps": []interface{}{st}}
}

func (g *sgen) page(id string, n int) J {
	var items []interface{}
	for j := 0; j < n; j++ {
		k := g.r.intn(n/2 + 2)
		iid := remote(fmt.Sprintf("/activities/%d", k))
		if k%3 == 2 {
			// ids with a userinfo part: equal ids are equal texts, however often they were parsed
			iid = fmt.Sprintf("https://bob@%s/activities/%d", hostB, k)
		}
		if g.r.chance(30) {
			items = append(items, J{"type": g.r.pick([]string{"Create", "Like", "Announce"}), "id": iid, "actor": bob})
		} else {
			items = append(items, iid)
		}
	}
	if n > 0 && g.r.chance(8) {
		// an element that is neither a typed value nor an IRI: the page cannot be de-duplicated (an error, not a hang)
		at := g.r.intn(len(items) + 1)
		junk := []interface{}{5.0, true, J{"zz": 1.0}, "not an iri"}[g.r.intn(4)]
		items = append(items[:at], append([]interface{}{junk}, items[at:]...)...)
	}
	p := J{"type": "OrderedCollectionPage", "id": id}
	if n > 0 || g.r.bool() {
		if items == nil {
			items = []interface{}{}
		}
		p["orderedItems"] = asList(items)
		if n == 0 {
			p["orderedItems"] = []interface{}{}
		}
	}
	return p
}

func famGet(g *sgen, i int) J {
	w := g.baseWorld()
	w["servedInbox"] = g.page(aliceInbox, g.r.intn(31))
	w["servedOutbox"] = g.page(aliceOutbox, g.r.intn(31))
	w["zoneMin"] = float64([]int{0, 0, 60, -330, 765}[g.r.intn(5)])
	w["now"] = float64(int64(g.r.next()%4102444800) - 946684800*int64(g.r.intn(2)))
	entry := []string{"getInbox", "getOutbox", "handler"}[i%3]
	path := map[string]string{"getInbox": "/users/alice/inbox", "getOutbox": "/users/alice/outbox", "handler": "/notes/2"}[entry]
	if entry == "handler" {
		// serve values of many types, with bto/bcc at several object depths, tombstones, missing values
		tys := []string{"Note", "Article", "Create", "Announce", "Person", "Tombstone", "Collection", "Relationship", "Question", "Offer"}
		ty := tys[g.r.intn(len(tys))]
		v := J{"type": ty, "id": local("/notes/2"), "name": "served"}
		cur := v
		depth := g.r.intn(5)
		for d := 0; d < depth; d++ {
			if g.r.chance(50) {
				cur["bto"] = asList([]interface{}{bob})
			}
			if g.r.chance(50) {
				cur["bcc"] = []interface{}{carol, bob}
			}
			nt := g.r.pick([]string{"Note", "Create", "Relationship", "Article", "Announce"})
			child := J{"type": nt, "content": "c"}
			// embedded values mostly carry their own id, sometimes none (anonymous), sometimes one seen before
			switch g.r.intn(10) {
			case 0, 1, 2:
			case 3:
				child["id"] = local("/nest/0")
			default:
				child["id"] = local(fmt.Sprintf("/nest/%d", d))
			}
			switch g.r.intn(8) {
			case 0:
				cur["object"] = []interface{}{child, remote("/notes/8")}
			case 1, 2:
				// an anonymous sibling with hidden recipients of its own, before or after the nested chain
				sib := J{"type": "Note", "content": "sibling", "bcc": []interface{}{carol}}
				if g.r.bool() {
					sib["bto"] = bob
				}
				if g.r.bool() {
					cur["object"] = []interface{}{sib, child}
				} else {
					cur["object"] = []interface{}{child, sib}
				}
			default:
				cur["object"] = child
			}
			cur = child
		}
		if g.r.chance(50) {
			cur["bto"] = bob
		}
		// a quarter of the requests carry a query: the id asked about, locked and unlocked is the whole request IRI
		if g.r.chance(25) {
			path = "/notes/2?page=true&min_id=7"
		} else if g.r.chance(10) {
			path = "/notes/2/" // an id of its own
		}
		jmap(w["store"])[local(path)] = v
		if g.r.chance(10) {
			delete(jmap(w["store"]), local(path))
			w["getMissing"] = "nil"
		}
		if strings.HasSuffix(path, "/") {
			// nothing is stored under the id with the slash (the value lives under the one without): not found
			delete(jmap(w["store"]), local(path))
			jmap(w["store"])[local("/notes/2")] = v
			w["getMissing"] = "nil"
		}
	}
	kind := []string{"both", "social", "federating"}[g.r.intn(3)]
	if entry == "getInbox" && kind == "social" {
		kind = "both" // a Social-only actor has no FederatingProtocol to serve its inbox (DESIGN F4); exercised by C11
	}
	st := step(entry, "GET", g.header(true), path, nil)
	if g.r.chance(5) {
		st["shortWrite"] = true
	}
	if i%5 == 3 {
		st["staleHeaders"] = true
	}
	return J{"label": entry, "cfg": J{"kind": kind}, "world": w, "steps": []interface{}{st}}
}

func famGate(g *sgen, i int) J {
	w := g.baseWorld()
	// the outcome matrix is walked systematically: entry, then authentication answer, then block answer
	entry := []string{"postInbox", "postOutbox", "getInbox", "getOutbox", "handler"}[i%5]
	k := i / 5
	w["auth"] = []string{"ok", "denied", "error"}[k%3]
	w["blocked"] = []string{"no", "yes", "error"}[(k/3)%3]
	w["servedInbox"] = g.page(aliceInbox, 3)
	w["servedOutbox"] = g.page(aliceOutbox, 3)
	w["fedCallbacks"] = g.cbConfig(inboxTypes)
	w["socialCallbacks"] = g.cbConfig(outboxTypes)
	kind := []string{"both", "social", "federating"}[g.r.intn(3)]
	if entry == "getInbox" && kind == "social" {
		kind = "federating"
	}
	if (entry == "postInbox" || entry == "postOutbox") && g.r.chance(10) {
		kind = "none" // an actor with neither protocol enabled: both POST endpoints are disabled
	}
	method := "POST"
	if entry == "getInbox" || entry == "getOutbox" || entry == "handler" {
		method = "GET"
	}
	if g.r.chance(15) {
		method = g.r.pick([]string{"GET", "POST", "PUT", "HEAD", "DELETE"})
	}
	// mostly well-formed requests, so that the later outcomes (blocked, refused, accepted) are reached
	var body interface{}
	switch g.r.intn(10) {
	case 0:
		body = J{"__raw": "this is not json"}
	case 1:
		body = J{"type": "Gizmo", "id": remote("/g/1")}
	case 2:
		body = J{"type": "Note", "id": remote("/n/1"), "content": "bare"}
	case 3:
		body = []interface{}{1.0, 2.0}
	default:
		if entry == "postOutbox" {
			body = g.outboxValue(outboxTypes[g.r.intn(len(outboxTypes))], w)
		} else {
			body = g.inboxActivity(inboxTypes[g.r.intn(len(inboxTypes))], w)
		}
	}
	path := map[string]string{"postInbox": "/users/alice/inbox", "getInbox": "/users/alice/inbox", "postOutbox": "/users/alice/outbox", "getOutbox": "/users/alice/outbox", "handler": "/notes/2"}[entry]
	ap := g.r.chance(75)
	st := step(entry, method, g.header(ap), path, body)
	// the other header (Content-Type on a GET, Accept on a POST) must play no part in the classification
	if g.r.chance(45) {
		st["otherHeader"] = g.header(!ap || g.r.bool())
	}
	// a Create's recipients are merged through Go maps: the order of its delivery-stage calls is not fixed
	unordered := false
	if bm, ok := body.(map[string]interface{}); ok && entry == "postOutbox" {
		unordered = bm["type"] == "Create"
	}
	return J{"label": "gate-" + entry, "unordered": unordered, "cfg": J{"kind": kind}, "world": w, "steps": []interface{}{st}}
}

// inbox/outbox bodies whose id is absent, null, empty, a number, an object, a relative reference or an absolute IRI
func famIds(g *sgen, i int) J {
	w := g.baseWorld()
	w["fedCallbacks"] = g.cbConfig(inboxTypes)
	w["socialCallbacks"] = g.cbConfig(outboxTypes)
	inbox := i%3 != 2
	var a J
	if inbox {
		a = g.inboxActivity(inboxTypes[g.r.intn(len(inboxTypes))], w)
	} else {
		a = g.outboxValue(outboxTypes[g.r.intn(len(outboxTypes))], w)
	}
	switch i % 8 {
	case 0:
		delete(a, "id")
	case 1:
		a["id"] = nil
	case 2:
		a["id"] = ""
	case 3:
		a["id"] = 5.0
	case 4:
		a["id"] = J{"href": "https://b.example/x"}
	case 5:
		a["id"] = "/relative/ref"
	case 6:
		// absolute IRIs without an authority are ids like any other
		a["id"] = []string{"urn:uuid:7b0b8a3e-5d6f-4e0a-9c55-0f3d0a6d2c11", "tag:b.example,2020:activity/7", "did:example:123456789abcdefghi", "acct:bob@b.example"}[g.r.intn(4)]
	default:
		a["id"] = remote("/activities/ok")
	}
	if inbox {
		return J{"label": "ids-inbox", "cfg": J{"kind": "both"}, "world": w,
			"steps": []interface{}{step("postInbox", "POST", g.header(true), "/users/alice/inbox", a)}}
	}
	return J{"label": "ids-outbox", "unordered": a["type"] == "Create", "cfg": J{"kind": "both"}, "world": w,
		"steps": []interface{}{step("postOutbox", "POST", g.header(true), "/users/alice/outbox", a)}}
}

// activities lacking a required object or target (absent or empty), for every handled type, inbox and outbox
func famMissing(g *sgen, i int) J {
	w := g.baseWorld()
	w["fedCallbacks"] = J{"onFollow": float64(g.r.intn(3))}
	w["socialCallbacks"] = J{}
	types := []string{"Create", "Update", "Delete", "Follow", "Add", "Remove", "Like", "Undo", "Block", "Announce", "Accept", "Reject"}
	ty := types[i%len(types)]
	inbox := (i/len(types))%2 == 0
	var a J
	if inbox {
		a = g.inboxActivity(ty, w)
	} else {
		a = g.outboxValue(ty, w)
	}
	switch (i / (2 * len(types))) % 4 {
	case 0:
		delete(a, "object")
	case 1:
		a["object"] = []interface{}{}
	case 2:
		delete(a, "target")
	default:
		a["target"] = []interface{}{}
	}
	if inbox {
		return J{"label": "missing-inbox-" + ty, "cfg": J{"kind": "both"}, "world": w,
			"steps": []interface{}{step("postInbox", "POST", g.header(true), "/users/alice/inbox", a)}}
	}
	return J{"label": "missing-outbox-" + ty, "unordered": ty == "Create", "cfg": J{"kind": "both"}, "world": w,
		"steps": []interface{}{step("postOutbox", "POST", g.header(true), "/users/alice/outbox", a)}}
}

// Create activities and bare objects only (C05's normalisation), through either entry point
func famCreate(g *sgen, i int) J {
	ty := []string{"Create", "Note", "Create", "Article"}[i%4]
	w := g.baseWorld()
	w["socialCallbacks"] = g.cbConfig([]string{"Create", "Like"})
	v := g.outboxValue(ty, w)
	if g.r.bool() {
		kind := "both"
		if g.r.chance(25) {
			kind = "federating"
		}
		st := J{"entry": "send", "host": hostA, "path": "/users/alice/outbox", "value": v}
		return J{"label": "create-send-" + ty, "unordered": kind == "both", "cfg": J{"kind": kind}, "world": w, "steps": []interface{}{st}}
	}
	kind := "both"
	if g.r.chance(25) {
		kind = "social"
	}
	return J{"label": "create-post-" + ty, "unordered": true, "cfg": J{"kind": kind}, "world": w,
		"steps": []interface{}{step("postOutbox", "POST", g.header(true), "/users/alice/outbox", v)}}
}

// 1..8 posts to the same and to different outboxes, some of them failing part-way
func famHistory(g *sgen, i int) J {
	w := g.baseWorld()
	w["socialCallbacks"] = g.cbConfig(outboxTypes)
	w["newIds"] = []interface{}{}
	if g.r.bool() {
		w["outboxes"] = J{aliceOutbox: J{"type": "OrderedCollectionPage", "id": aliceOutbox, "orderedItems": asList([]interface{}{local("/activities/old2"), local("/activities/old1")})}}
	}
	n := 1 + g.r.intn(8)
	var steps []interface{}
	unordered := false
	for k := 0; k < n; k++ {
		ty := g.r.pick([]string{"Create", "Note", "Like", "Follow", "Announce", "Block", "Listen", "Update"})
		v := g.outboxValue(ty, w)
		path := "/users/alice/outbox"
		if g.r.chance(30) {
			path = "/users/dave/outbox"
		}
		var st J
		if g.r.chance(40) {
			st = J{"entry": "send", "host": hostA, "path": path, "value": v}
		} else {
			st = step("postOutbox", "POST", g.header(true), path, v)
		}
		if k < n-1 && g.r.chance(20) {
			st["fault"] = float64(1 + g.r.intn(12))
		}
		if ty == "Create" || ty == "Note" {
			unordered = true
		}
		steps = append(steps, st)
	}
	return J{"label": "history", "unordered": unordered, "cfg": J{"kind": "both"}, "world": w, "steps": steps}
}

// C06: what a federated peer may and may not do
func famAuthority(g *sgen, i int) J {
	w := g.baseWorld()
	w["fedCallbacks"] = g.cbConfig([]string{"Update", "Accept", "Undo"})
	if g.r.chance(70) {
		w["fedCallbacks"] = J{"wrapped": asList([]interface{}{"Update", "Delete", "Accept", "Undo"}), "other": []interface{}{}, "onFollow": 0.0}
	}
	hosts := []string{"b.example", "b.example", "b.example:8443", "B.EXAMPLE", "sub.b.example", "c.example"}
	at := func(h, p string) string { return "https://" + h + p }
	var a J
	var actorPool []string
	switch i % 4 {
	case 0: // Update / Delete across hosts
		ty := g.r.pick([]string{"Update", "Delete"})
		ah := g.r.pick(hosts)
		a = J{"type": ty, "id": at(ah, fmt.Sprintf("/activities/%d", g.r.intn(100)))}
		var objs []interface{}
		for k, n := 0, 1+g.r.intn(3); k < n; k++ {
			oh := ah
			if g.r.chance(35) {
				oh = g.r.pick(hosts)
			}
			oid := at(oh, fmt.Sprintf("/notes/u%d", k))
			if g.r.chance(20) {
				// a Link or Mention with an id of its own and an href elsewhere: it is identified by the id
				hh := g.r.pick(hosts)
				objs = append(objs, J{"type": g.r.pick([]string{"Link", "Mention"}), "id": oid, "href": at(hh, "/linked"), "name": "upd"})
				continue
			}
			if ty == "Update" || g.r.bool() {
				objs = append(objs, J{"type": "Note", "id": oid, "content": "upd"})
			} else {
				objs = append(objs, oid)
			}
		}
		a["object"] = asList(objs)
	case 1: // Accept of a Follow
		a = J{"type": "Accept", "id": remote(fmt.Sprintf("/activities/%d", g.r.intn(100)))}
		store := jmap(w["store"])
		// mostly the genuine stored Follow (so that verified Accepts — and faults after the verification — are common)
		sc := g.r.intn(12)
		repeated := false
		if sc == 6 {
			sc = 5 // the repeated-object Follow twice as often
		}
		if sc > 6 {
			sc = 6
		}
		switch sc {
		case 0:
			delete(store, local("/activities/f1"))
			if g.r.bool() {
				w["getMissing"] = "nil"
			}
		case 1:
			store[local("/activities/f1")] = J{"type": "Note", "id": local("/activities/f1"), "content": "not a follow"}
		case 2:
			store[local("/activities/f1")] = J{"type": "Follow", "id": local("/activities/f1"), "actor": dave, "object": bob}
		case 3:
			store[local("/activities/f1")] = J{"type": "Follow", "id": local("/activities/f1"), "actor": alice, "object": carol}
		case 4:
			store[local("/activities/f1")] = J{"type": "Follow", "id": local("/activities/f1"), "actor": asList([]interface{}{dave, alice}), "object": asList([]interface{}{carol, bob, remote("/users/bea")})}
		case 5:
			// the stored Follow names one object twice (by IRI and embedded): it still covers only that one actor
			store[local("/activities/f1")] = J{"type": "Follow", "id": local("/activities/f1"), "actor": alice, "object": []interface{}{bob, J{"type": "Person", "id": bob}}}
			repeated = true
		}
		var objs []interface{}
		for k, n := 0, 1+g.r.intn(2); k < n; k++ {
			switch g.r.intn(5) {
			case 0, 1:
				objs = append(objs, J{"type": "Follow", "id": local("/activities/f1"), "actor": alice, "object": bob})
			case 2:
				objs = append(objs, remote("/activities/f2"))
			case 3:
				objs = append(objs, J{"type": "Follow", "id": local("/activities/f1"), "actor": carol, "object": bob})
			default:
				objs = append(objs, J{"type": "Note", "id": remote("/notes/x"), "content": "x"})
			}
		}
		a["object"] = asList(objs)
		if repeated {
			// … accepted by the followed actor alone, or together with somebody who was never followed
			a["object"] = J{"type": "Follow", "id": local("/activities/f1"), "actor": alice, "object": bob}
			if g.r.bool() {
				a["actor"] = bob
			} else {
				a["actor"] = []interface{}{bob, remote("/users/bea")}
			}
		}
	case 2: // Undo with actor sets
		a = J{"type": "Undo", "id": remote(fmt.Sprintf("/activities/%d", g.r.intn(100)))}
		rem := jmap(w["remote"])
		pool := []string{bob, remote("/users/bea"), carol}
		if g.r.chance(25) {
			// distinct actors whose ids differ only in letter case
			pool = []string{remote("/users/Bob"), remote("/users/bob"), remote("/users/BOB")}
			actorPool = pool
		}
		var undone []interface{}
		for k, n := 0, 1+g.r.intn(2); k < n; k++ {
			var as []interface{}
			for _, p := range pool {
				if g.r.chance(45) {
					as = append(as, g.ref(p, "Person", g.r.chance(25)))
				}
			}
			uid := remote(fmt.Sprintf("/activities/undone%d", k))
			doc := J{"type": "Like", "id": uid, "object": local("/notes/1")}
			if len(as) > 0 || g.r.chance(70) {
				if as == nil {
					as = []interface{}{}
				}
				doc["actor"] = asList(as)
			}
			rem[uid] = doc
			undone = append(undone, g.ref(uid, "Like", g.r.chance(30)))
		}
		a["object"] = asList(undone)
	default: // any handled type: who is asked about
		a = g.inboxActivity(inboxTypes[(i/4)%len(inboxTypes)], w)
	}
	if _, ok := a["actor"]; !ok || i%4 == 3 {
		var actors []interface{}
		pool := []string{bob, remote("/users/bea"), carol}
		if g.r.chance(35) {
			// distinct actors whose ids differ only in the query or the fragment
			pool = [][]string{
				{remote("/users?u=1"), remote("/users?u=2"), remote("/users?u=3")},
				{remote("/actors#bob"), remote("/actors#bea"), remote("/actors")},
				{remote("/users/bob?v=1"), remote("/users/bob"), remote("/users/bob#main")},
			}[g.r.intn(3)]
		}
		if actorPool != nil {
			pool = actorPool
		}
		na := 1 + g.r.intn(3)
		if g.r.bool() {
			na = 1
		}
		for k := 0; k < na; k++ {
			if g.r.chance(12) {
				// an actor given as a Mention with an id of its own and an href to somebody else
				actors = append(actors, J{"type": "Mention", "id": pool[k], "href": pool[(k+1)%len(pool)]})
				continue
			}
			actors = append(actors, g.ref(pool[k], "Person", g.r.chance(40)))
		}
		a["actor"] = asList(actors)
		if g.r.chance(40) {
			w["blockedIds"] = asList([]interface{}{pool[g.r.intn(len(actors))]})
		}
	}
	if _, set := w["blockedIds"]; !set && g.r.chance(30) {
		w["blockedIds"] = asList([]interface{}{g.r.pick([]string{bob, remote("/users/bea"), carol, fmt.Sprint(a["id"])})})
	}
	if _, ok := a["to"]; !ok && g.r.bool() {
		a["to"] = alice
	}
	steps := []interface{}{step("postInbox", "POST", g.header(true), "/users/alice/inbox", a)}
	if g.r.chance(20) {
		// a second request on the same actor, from somebody else
		b := J{"type": "Listen", "id": remote(fmt.Sprintf("/activities/second%d", g.r.intn(100))), "actor": []interface{}{remote("/users/zed"), carol}, "object": remote("/notes/8"), "to": alice}
		steps = append(steps, step("postInbox", "POST", g.header(true), "/users/alice/inbox", b))
	}
	return J{"label": "authority-" + fmt.Sprint(a["type"]), "cfg": J{"kind": "both"}, "world": w, "steps": steps}
}

// C02: a random federation graph behind the addressing properties
func famGraph(g *sgen, i int) J {
	w := g.baseWorld()
	w["socialCallbacks"] = J{"wrapped": []interface{}{}, "other": []interface{}{}, "onFollow": 0.0}
	rem := jmap(w["remote"])
	inboxFor := jmap(w["inboxFor"])
	var actors, cols []string
	crowd := false
	na, nc := 3+g.r.intn(5), 1+g.r.intn(4)
	for k := 0; k < na; k++ {
		id := remote(fmt.Sprintf("/users/r%d", k))
		actors = append(actors, id)
		switch g.r.intn(9) {
		case 0:
			rem[id] = J{"__raw": "<html>not json</html>"}
		case 1:
			rem[id] = J{"type": "Gizmo", "id": id}
		case 2:
			delete(rem, id) // unreachable
		default:
			rem[id] = actorDoc(id, id+"/inbox")
			if g.r.chance(12) {
				// the inbox given as an embedded collection with an id, not as a bare IRI
				jmap(rem[id])["inbox"] = J{"type": "OrderedCollection", "id": id + "/inbox"}
			}
		}
		if g.r.chance(25) {
			inboxFor[id] = id + "/stored-inbox"
		}
	}
	if g.r.chance(3) {
		// a long recipient list (more than 64 inboxes): still one hand-over to the transport
		for k := na; k < 70; k++ {
			id := remote(fmt.Sprintf("/users/r%d", k))
			actors = append(actors, id)
			inboxFor[id] = id + "/stored-inbox"
		}
		crowd = true
	}
	for k := 0; k < nc; k++ {
		cols = append(cols, remote(fmt.Sprintf("/cols/c%d", k)))
	}
	pool := append(append([]string{}, actors...), cols...)
	pool = append(pool, alice, dave, carol)
	// one graph in eight is delivered without a depth limit (0 or negative: "infinite recursion"); its collections
	// then only contain collections of a higher index, so that the expansion ends
	unlimited := g.r.chance(12)
	for k, id := range cols {
		var items []interface{}
		for j, n := 0, g.r.intn(5); j < n; j++ {
			if unlimited {
				dag := append(append([]string{}, actors...), cols[k+1:]...)
				items = append(items, dag[g.r.intn(len(dag))])
				continue
			}
			items = append(items, pool[g.r.intn(len(pool))])
		}
		if g.r.chance(15) {
			// a member whose id cannot be determined (anonymous embedded object): the whole lookup of this collection fails
			at := g.r.intn(len(items) + 1)
			anon := J{"type": "Note", "content": "anonymous member"}
			items = append(items[:at], append([]interface{}{anon}, items[at:]...)...)
		}
		if items == nil {
			items = []interface{}{}
		}
		ty, key := "Collection", "items"
		switch (k + g.r.intn(4)) % 4 {
		case 1:
			ty, key = "OrderedCollection", "orderedItems"
		case 2:
			ty, key = "CollectionPage", "items"
		case 3:
			ty, key = "OrderedCollectionPage", "orderedItems"
		}
		rem[id] = J{"type": ty, "id": id, key: asList(items)}
	}
	w["maxDeliveryDepth"] = float64(1 + g.r.intn(4))
	if unlimited {
		w["maxDeliveryDepth"] = float64(-g.r.intn(2))
	}
	apool := append(append([]string{}, pool...), publicIRI, "as:Public", remote("/gone"), alice)
	var v J
	switch i % 3 {
	case 0:
		v = J{"type": "Note", "content": "hi"}
	case 1:
		v = J{"type": "Like", "actor": alice, "object": remote("/notes/8")}
	default:
		v = J{"type": "Announce", "actor": alice, "object": remote("/notes/9")}
	}
	g.address(v, apool, 55)
	if crowd {
		var xs, ys []interface{}
		for k, id := range actors {
			if k%2 == 0 {
				xs = append(xs, id)
			} else {
				ys = append(ys, id)
			}
		}
		v["to"], v["cc"] = asList(xs), asList(ys)
	}
	if len(cols) >= 2 && g.r.chance(35) {
		// a collection addressed directly and also reachable through another one (shared / nested audiences)
		outer, inner := cols[0], cols[1]
		od := jmap(rem[outer])
		for _, key := range []string{"items", "orderedItems"} {
			if _, ok := od[key]; ok {
				od[key] = asList(append([]interface{}{inner}, jlist(od[key])...))
			}
		}
		id := jmap(rem[inner])
		for _, key := range []string{"items", "orderedItems"} {
			if _, ok := id[key]; ok {
				id[key] = asList(append(jlist(id[key]), actors[g.r.intn(len(actors))]))
			}
		}
		pair := []interface{}{outer, inner}
		if g.r.bool() {
			pair = []interface{}{inner, outer}
		}
		v[g.r.pick([]string{"to", "cc", "bto", "audience"})] = asList(pair)
	}
	if g.r.chance(12) {
		// every addressed actor — the sender among them — has an application-stored inbox: nothing to dereference
		var xs []interface{}
		for _, id := range actors {
			inboxFor[id] = id + "/stored-inbox"
			xs = append(xs, id)
		}
		inboxFor[alice] = aliceInbox
		xs = append(xs, alice)
		for _, p := range []string{"to", "cc", "bto", "bcc", "audience"} {
			delete(v, p)
		}
		v[g.r.pick([]string{"to", "cc", "bto"})] = asList(xs)
	}
	if g.r.chance(20) {
		// two deliveries in a row through one actor: what the transport was handed the first time is still the
		// transport's when the second one is prepared
		first := J{"type": "Note", "content": "an earlier, private note", "to": actors[0]}
		st0 := J{"entry": "send", "host": hostA, "path": "/users/alice/outbox", "value": first}
		st := J{"entry": "send", "host": hostA, "path": "/users/alice/outbox", "value": v}
		return J{"label": "graph-send2", "wantGraph": true, "unordered": true, "cfg": J{"kind": "both"}, "world": w, "steps": []interface{}{st0, st}}
	}
	if g.r.bool() {
		st := J{"entry": "send", "host": hostA, "path": "/users/alice/outbox", "value": v}
		return J{"label": "graph-send", "wantGraph": true, "unordered": v["type"] == "Note", "cfg": J{"kind": "both"}, "world": w, "steps": []interface{}{st}}
	}
	return J{"label": "graph-post", "wantGraph": true, "unordered": v["type"] == "Note", "cfg": J{"kind": "both"}, "world": w,
		"steps": []interface{}{step("postOutbox", "POST", g.header(true), "/users/alice/outbox", v)}}
}

// C17: inbox forwarding — reply chains, owned and foreign collections, repeated deliveries
func famForward(g *sgen, i int) J {
	w := g.baseWorld()
	w["fedCallbacks"] = J{"wrapped": []interface{}{}, "other": []interface{}{}, "onFollow": 0.0}
	w["maxFwdDepth"] = float64(1 + g.r.intn(4))
	switch g.r.intn(4) {
	case 0:
		w["filter"] = "none"
	case 1:
		w["filter"] = asListAlways([]interface{}{g.r.pick([]string{local("/col/1"), local("/col/2"), local("/ocol/1")})})
	default:
		w["filter"] = "all"
	}
	rem := jmap(w["remote"])
	store := jmap(w["store"])
	// a reply chain of 0..5 links; the link at `ownedAt` (if any) is owned by this server
	n := g.r.intn(6)
	ownedAt := -1
	if g.r.chance(75) {
		ownedAt = g.r.intn(n + 1)
	}
	link := func(k int) string {
		if k == ownedAt {
			return local(fmt.Sprintf("/notes/chain%d", k))
		}
		return remote(fmt.Sprintf("/notes/chain%d", k))
	}
	owned := jlist(w["owned"])
	var next interface{}
	for k := n; k >= 0; k-- {
		id := link(k)
		doc := J{"type": "Note", "id": id, "content": fmt.Sprintf("link %d", k)}
		if next != nil {
			doc[g.r.pick([]string{"inReplyTo", "inReplyTo", "tag", "object", "target"})] = next
			if _, ok := doc["object"]; ok {
				doc["type"] = "Like"
				doc["actor"] = bob
			}
			if _, ok := doc["target"]; ok {
				doc["type"] = "Add"
				doc["actor"] = bob
				doc["object"] = remote("/notes/8")
			}
		}
		// a second reference, by IRI, to a link further down the chain (shared context / thread root)
		if k+2 <= n && g.r.chance(30) {
			for _, p := range []string{"tag", "target", "object", "inReplyTo"} {
				if _, used := doc[p]; !used && (p == "tag" || p == "inReplyTo") {
					doc[p] = link(k + 2 + g.r.intn(n-k-1))
					break
				}
			}
		}
		if k == ownedAt {
			owned = append(owned, id)
			store[id] = doc
		} else {
			rem[id] = doc
		}
		if g.r.chance(35) && k != ownedAt {
			next = deepCopy(doc) // embedded
		} else if g.r.chance(25) {
			// the link sits behind a sibling that cannot be fetched (gone / not JSON / unknown type): that sibling is
			// skipped, the link is still followed
			next = []interface{}{g.r.pick([]string{remote("/gone"), remote("/garbage"), remote("/unknown"), remote("/notype")}), id}
		} else {
			next = id
		}
	}
	w["owned"] = owned
	a := J{"type": g.r.pick([]string{"Create", "Announce", "Like", "Listen"}), "id": remote(fmt.Sprintf("/activities/fw%d", g.r.intn(1000))), "actor": bob}
	if a["type"] == "Create" {
		a["object"] = J{"type": "Note", "id": remote("/notes/new"), "content": "reply", "inReplyTo": next}
	} else {
		a["object"] = next
	}
	pool := []string{local("/col/1"), local("/col/2"), local("/ocol/1"), remote("/col/r"), local("/notes/1"), alice, dave, carol, publicIRI}
	for _, p := range []string{"to", "cc", "audience"} {
		if g.r.chance(55) {
			var xs []interface{}
			for k, m := 0, 1+g.r.intn(3); k < m; k++ {
				xs = append(xs, pool[g.r.intn(len(pool))])
			}
			a[p] = asList(xs)
		}
	}
	var steps []interface{}
	for k, m := 0, 1+g.r.intn(3); k < m; k++ {
		path := "/users/alice/inbox"
		if g.r.chance(30) {
			path = "/users/dave/inbox"
		}
		st := step("postInbox", "POST", g.header(true), path, a)
		if k < m-1 && g.r.chance(25) {
			st["fault"] = float64(1 + g.r.intn(16))
		}
		steps = append(steps, st)
	}
	return J{"label": "forward", "wantGraph": true, "cfg": J{"kind": "both"}, "world": w, "steps": steps}
}

// C11: a valid scenario of any family with one or two hostile mutations — of the request body, of a document the
// Transport returns, or of a value the Database returns
func famHostile(g *sgen, i int) J {
	bases := []string{"inbox", "outbox", "send", "forward", "authority", "graph", "create", "get", "inbox", "outbox", "client", "client"}
	sc := families[bases[i%len(bases)]](g, i/len(bases))
	w := jmap(sc["world"])
	rem := jmap(w["remote"])
	rem[remote("/incomplete")] = J{"type": "Person", "id": remote("/incomplete"), "name": "no inbox"}
	sc["label"] = "hostile-" + fmt.Sprint(sc["label"])
	delete(sc, "wantGraph")
	var muts []interface{}
	for n, m := 0, 1+g.r.intn(2); n < m; n++ {
		switch g.r.intn(4) {
		case 0, 1: // the request body / value
			steps := sc["steps"].([]interface{})
			st := jmap(steps[g.r.intn(len(steps))])
			key := "body"
			if st["entry"] == "send" {
				key = "value"
			}
			if b, ok := st[key].(map[string]interface{}); ok {
				nb, d := g.mutate(b)
				st[key] = nb
				muts = append(muts, "body:"+d)
			}
		case 2: // a remote document
			ks := sortedKeys(rem)
			if len(ks) > 0 {
				k := ks[g.r.intn(len(ks))]
				nd, d := g.mutate(rem[k])
				rem[k] = nd
				muts = append(muts, "remote["+k+"]:"+d)
			}
		default: // a stored value
			store := jmap(w["store"])
			ks := sortedKeys(store)
			if len(ks) > 0 {
				k := ks[g.r.intn(len(ks))]
				// the collections the side effects read and write back are the interesting stored values
				if g.r.bool() {
					k = g.r.pick([]string{local("/col/1"), local("/col/2"), local("/ocol/1"), aliceFollowers, local("/notes/1"), local("/notes/2")})
					if _, ok := store[k]; !ok {
						k = ks[g.r.intn(len(ks))]
					}
				}
				nd, d := g.mutate(store[k])
				store[k] = nd
				muts = append(muts, "store["+k+"]:"+d)
			}
		}
	}
	sc["mutations"] = muts
	return sc
}

var families = map[string]family{"forward": famForward, "graph": famGraph, "authority": famAuthority, "create": famCreate, "history": famHistory, "ids": famIds, "missing": famMissing, "inbox": famInbox, "outbox": famOutbox, "send": famSend, "get": famGet, "gate": famGate}

// args: <prop> <count> <maxFaultsPerScenario> fam1,fam2,...
func genPub(r *rng, thorough bool, args []string, yield func(in J)) {
	n, maxFaults := 200, 12
	fams := []string{"inbox", "outbox", "send", "get", "gate"}
	if len(args) >= 1 {
		n, _ = strconv.Atoi(args[0])
	}
	if len(args) >= 2 {
		maxFaults, _ = strconv.Atoi(args[1])
	}
	if len(args) >= 3 {
		fams = nil
		cur := ""
		for _, c := range args[2] + "," {
			if c == ',' {
				if cur != "" {
					fams = append(fams, cur)
				}
				cur = ""
			} else {
				cur += string(c)
			}
		}
	}
	if thorough {
		n *= 8
		if maxFaults > 0 {
			maxFaults = -1 // every fallible call
		}
	}
	g := &sgen{r}
	for i := 0; i < n; i++ {
		f := families[fams[i%len(fams)]]
		sc := f(g, i/len(fams))
		withFaults(sc, maxFaults, yield)
	}
}

func init() {
	for _, p := range []string{"C02", "C03", "C04", "C05", "C06", "C07", "C09", "C10", "C11", "C16", "C17", "C20", "PUB"} {
		prop := p
		runners["pub-"+prop] = &runner{prop: prop, gen: genPub, run: runPub}
	}
}

func init() { families["hostile"] = famHostile }

func sortedKeys(m J) []string {
	ks := make([]string, 0, len(m))
	for k := range m {
		ks = append(ks, k)
	}
	sort.Strings(ks)
	return ks
}

// C11's recorded finding: GET of the inbox served by a Social-only actor
func famGetSocial(g *sgen, i int) J {
	sc := famGet(g, i)
	st := jmap(sc["steps"].([]interface{})[0])
	st["entry"] = "getInbox"
	st["path"] = "/users/alice/inbox"
	sc["cfg"] = J{"kind": "social"}
	sc["label"] = "getInbox-social-only"
	return sc
}

func init() { families["getsocial"] = famGetSocial }

// C16: client Update / Delete / Add / Remove / Like / Block against a store with varied objects
func famClient(g *sgen, i int) J {
	ty := []string{"Update", "Update", "Delete", "Add", "Remove", "Like", "Block", "Update"}[i%8]
	w := g.baseWorld()
	w["socialCallbacks"] = g.cbConfig([]string{ty, "Create"})
	if g.r.chance(70) {
		w["socialCallbacks"] = J{"wrapped": asList([]interface{}{ty}), "other": []interface{}{}, "onFollow": 0.0}
	}
	store := jmap(w["store"])
	// vocabulary members and one extension member ("mood") the vocabulary does not know
	members := []string{"content", "summary", "name", "published", "updated", "attributedTo", "mediaType", "mood"}
	vals := map[string]interface{}{"content": "c", "summary": "s", "name": "n", "published": "2019-01-02T03:04:05Z", "updated": "2019-02-03T04:05:06Z", "attributedTo": alice, "mediaType": "text/plain", "mood": "happy"}
	for _, id := range []string{local("/notes/1"), local("/notes/2")} {
		doc := J{"type": g.r.pick([]string{"Note", "Article", "Note"}), "id": id}
		for _, m := range members {
			if g.r.chance(55) {
				doc[m] = vals[m]
			}
		}
		store[id] = doc
	}
	a := J{"type": ty, "actor": alice}
	n := 1 + g.r.intn(3)
	var objs []interface{}
	switch ty {
	case "Update":
		for k := 0; k < n; k++ {
			o := J{"type": "Note", "id": g.r.pick([]string{local("/notes/1"), local("/notes/2")})}
			for _, m := range members {
				switch g.r.intn(5) {
				case 0:
					o[m] = fmt.Sprint(vals[m]) + "-new"
					if m == "published" || m == "updated" {
						o[m] = "2021-03-04T05:06:07Z"
					}
					if m == "attributedTo" {
						o[m] = dave
					}
				case 1:
					o[m] = nil // partial update: remove this member
				}
			}
			if g.r.chance(12) {
				o["weather"] = nil // null for an extension member that was never stored: nothing to remove, nothing to add
			}
			objs = append(objs, o)
		}
		if g.r.chance(20) {
			a["summary"] = nil // a null at the activity's top level must not touch the objects
		}
	case "Delete":
		for k := 0; k < n; k++ {
			objs = append(objs, g.ref(g.r.pick([]string{local("/notes/1"), local("/notes/2")}), "Note", g.r.chance(30)))
		}
	case "Add", "Remove":
		for k := 0; k < n; k++ {
			objs = append(objs, g.ref(g.r.pick([]string{bob, carol, dave, remote("/notes/8")}), "Note", g.r.chance(30)))
		}
		var ts []interface{}
		for k, m := 0, 1+g.r.intn(3); k < m; k++ {
			ts = append(ts, g.ref(g.r.pick([]string{local("/col/1"), local("/col/2"), local("/ocol/1"), remote("/col/r"), local("/col/1")}), "Collection", g.r.chance(20)))
		}
		a["target"] = asList(ts)
	default:
		for k := 0; k < n; k++ {
			objs = append(objs, g.ref(g.r.pick([]string{remote("/notes/8"), remote("/notes/9"), local("/notes/1"), bob}), "Note", g.r.chance(30)))
		}
	}
	a["object"] = asList(objs)
	g.address(a, []string{bob, carol, dave, remote("/col/r"), publicIRI}, 30)
	if g.r.chance(35) {
		st := J{"entry": "send", "host": hostA, "path": "/users/alice/outbox", "value": a}
		return J{"label": "client-send-" + ty, "cfg": J{"kind": "both"}, "world": w, "steps": []interface{}{st}}
	}
	return J{"label": "client-post-" + ty, "cfg": J{"kind": g.r.pick([]string{"both", "both", "social"})}, "world": w,
		"steps": []interface{}{step("postOutbox", "POST", g.header(true), "/users/alice/outbox", a)}}
}

func init() { families["client"] = famClient }

// C11: the stored values the side effects read (target collections, liked/likes/shares, updated objects) carry a
// hostile element
func famHostileStore(g *sgen, i int) J {
	var sc J
	if i%2 == 0 {
		sc = famClient(g, []int{2, 3, 4, 5, 0, 1}[i/2%6]) // Delete, Add, Remove, Like, Update
	} else {
		ty := []string{"Add", "Remove", "Like", "Announce", "Update", "Delete"}[i/2%6]
		w := g.baseWorld()
		w["fedCallbacks"] = J{"wrapped": []interface{}{}, "other": []interface{}{}, "onFollow": 0.0}
		sc = J{"label": "hs-inbox-" + ty, "cfg": J{"kind": "both"}, "world": w,
			"steps": []interface{}{step("postInbox", "POST", g.header(true), "/users/alice/inbox", g.inboxActivity(ty, w))}}
	}
	w := jmap(sc["world"])
	store := jmap(w["store"])
	var muts []interface{}
	for _, k := range []string{local("/col/1"), local("/col/2"), local("/ocol/1"), local("/notes/1"), local("/notes/2")} {
		doc := jmap(store[k])
		if len(doc) == 0 || !g.r.chance(70) {
			continue
		}
		for _, key := range []string{"items", "orderedItems", "likes", "shares"} {
			if v, ok := doc[key]; ok && g.r.chance(70) {
				rep := replacements[g.r.intn(len(replacements))]
				xs := jlist(v)
				if _, isMap := v.(map[string]interface{}); isMap {
					// likes / shares given as an embedded collection: poison its items
					inner := jmap(v)
					for _, ik := range []string{"items", "orderedItems"} {
						if iv, ok := inner[ik]; ok {
							ys := jlist(iv)
							ys = append(ys, rep.mk())
							inner[ik] = ys
						}
					}
				} else {
					pos := g.r.intn(len(xs) + 1)
					xs = append(xs[:pos], append([]interface{}{rep.mk()}, xs[pos:]...)...)
					doc[key] = xs
				}
				muts = append(muts, "store["+k+"]/"+key+":"+rep.name)
			}
		}
	}
	sc["mutations"] = muts
	sc["label"] = "hostile-store-" + fmt.Sprint(sc["label"])
	return sc
}

func init() { families["hostilestore"] = famHostileStore }

// C03: documents written with an aliased @context ({"<vocabulary IRI>": "as"}: every name of that vocabulary carries the
// prefix "as:"), with hidden recipients — posted to the outbox, or stored and served by the GET handler
func famAliased(g *sgen, i int) J {
	w := g.baseWorld()
	w["socialCallbacks"] = J{"wrapped": []interface{}{}, "other": []interface{}{}, "onFollow": 0.0}
	ctx := J{"https://www.w3.org/ns/activitystreams": "as"}
	hidden := func(v J) {
		if g.r.chance(70) {
			v["as:bto"] = g.r.pick([]string{bob, carol})
		}
		if g.r.chance(70) || v["as:bto"] == nil {
			v["as:bcc"] = []interface{}{carol}
		}
	}
	note := J{"type": "as:Note", "as:content": "aliased", "as:to": bob}
	hidden(note)
	if i%2 == 1 {
		note["@context"] = ctx
		note["id"] = local("/notes/2")
		jmap(w["store"])[local("/notes/2")] = note
		return J{"label": "aliased", "cfg": J{"kind": "both"}, "world": w,
			"steps": []interface{}{step("handler", "GET", g.header(true), "/notes/2", nil)}}
	}
	var body J
	switch (i / 2) % 3 {
	case 0:
		body = note
	case 1:
		body = J{"type": "as:Announce", "as:actor": alice, "as:object": remote("/notes/8"), "as:to": bob}
		hidden(body)
	default:
		body = J{"type": "as:Create", "as:actor": alice, "as:object": note, "as:to": bob}
		if g.r.bool() {
			hidden(body)
		}
	}
	body["@context"] = ctx
	return J{"label": "aliased", "unordered": true, "cfg": J{"kind": "both"}, "world": w,
		"steps": []interface{}{step("postOutbox", "POST", g.header(true), "/users/alice/outbox", body)}}
}

func init() { families["aliased"] = famAliased }
