package main

import (
	"context"
	"fmt"
	"net/url"
	"reflect"
	"sort"
	"strconv"
	"strings"
	"time"

	"github.com/go-fed/activity/streams"
	"github.com/go-fed/activity/streams/vocab"
)

// C18: operation sequences on every generated property container, through reflection.

var (
	urlType  = reflect.TypeOf((*url.URL)(nil))
	typeIfc  = reflect.TypeOf((*vocab.Type)(nil)).Elem()
	timeType = reflect.TypeOf(time.Time{})
	durType  = reflect.TypeOf(time.Duration(0))
)

// kinds of a property = suffixes K of its Append<K> (non-functional) or Set<K> (functional) methods
func kindsOf(p reflect.Value, functional bool) []string {
	var ks []string
	t := p.Type()
	for i := 0; i < t.NumMethod(); i++ {
		n := t.Method(i).Name
		if functional {
			// the kinds a slot can report: Is<K>() bool
			if strings.HasPrefix(n, "Is") && t.Method(i).Type.NumIn() == 1 && t.Method(i).Type.NumOut() == 1 && t.Method(i).Type.Out(0).Kind() == reflect.Bool {
				ks = append(ks, strings.TrimPrefix(n, "Is"))
			}
		} else if strings.HasPrefix(n, "Append") && t.Method(i).Type.NumIn() == 2 && n != "AppendType" {
			// AppendType(vocab.Type) dispatches to the appender of the value's own kind; it is not a kind
			ks = append(ks, strings.TrimPrefix(n, "Append"))
		}
	}
	sort.Strings(ks)
	return ks
}

// a typed value the property does not admit (none of its kind setters takes it), if its generic type setter exists
func badTypeFor(p reflect.Value, functional bool) (vocab.Type, bool) {
	generic := "AppendType"
	prefix := "Append"
	if functional {
		generic, prefix = "SetType", "Set"
	}
	if !p.MethodByName(generic).IsValid() {
		return nil, false
	}
	t := p.Type()
	for _, name := range []string{"Note", "Mention", "PublicKey", "Emoji", "Person", "Ticket", "Tombstone"} {
		te := typeByName(name)
		if te == nil {
			continue
		}
		c := te.New()
		ct := reflect.TypeOf(c)
		admitted := false
		for i := 0; i < t.NumMethod(); i++ {
			m := t.Method(i)
			if !strings.HasPrefix(m.Name, prefix) || m.Name == generic || m.Type.NumIn() != 2 {
				continue
			}
			pt := m.Type.In(1)
			if pt.Kind() == reflect.Interface && pt.NumMethod() > 3 && ct.Implements(pt) {
				admitted = true
			}
		}
		if !admitted {
			return c, true
		}
	}
	return nil, false
}

// the setter of kind k: Set<K>, or plain Set for the single literal kind of a functional property
func setterOf(p reflect.Value, prefix, kind string) reflect.Value {
	m := p.MethodByName(prefix + kind)
	if !m.IsValid() && prefix == "Set" && kind != "IRI" {
		m = p.MethodByName("Set")
	}
	return m
}

// a value of the parameter type, made distinguishable by n
func mkKindValue(t reflect.Type, n int) (reflect.Value, bool) {
	switch {
	case t == urlType:
		u, _ := url.Parse(fmt.Sprintf("https://v.example/%d", n))
		return reflect.ValueOf(u), true
	case t == timeType:
		return reflect.ValueOf(time.Unix(1500000000+int64(n), 0).UTC()), true
	case t == durType:
		return reflect.ValueOf(time.Duration(n) * time.Second), true
	case t.Kind() == reflect.String:
		return reflect.ValueOf(fmt.Sprintf("s%d", n)).Convert(t), true
	case t.Kind() == reflect.Bool:
		return reflect.ValueOf(n%2 == 0).Convert(t), true
	case t.Kind() == reflect.Int || t.Kind() == reflect.Int64:
		return reflect.ValueOf(n).Convert(t), true
	case t.Kind() == reflect.Float64:
		return reflect.ValueOf(float64(n) + 0.5).Convert(t), true
	case t.Kind() == reflect.Map && t.Key().Kind() == reflect.String && t.Elem().Kind() == reflect.String:
		// a natural-language map with one language
		m := reflect.MakeMap(t)
		m.SetMapIndex(reflect.ValueOf("en").Convert(t.Key()), reflect.ValueOf(fmt.Sprintf("s%d", n)).Convert(t.Elem()))
		return m, true
	case t.Kind() == reflect.Interface:
		for _, te := range typeTable {
			v := te.New()
			if reflect.TypeOf(v).Implements(t) {
				id := streams.NewJSONLDIdProperty()
				u, _ := url.Parse(fmt.Sprintf("https://v.example/%d", n))
				id.Set(u)
				v.SetJSONLDId(id)
				return reflect.ValueOf(v), true
			}
		}
	}
	return reflect.Value{}, false
}

func render(kind string, v reflect.Value) string {
	// an xsd:anyURI member *is* the IRI of the element: IsIRI and IsXMLSchemaAnyURI are one kind
	if kind == "XMLSchemaAnyURI" {
		kind = "IRI"
	}
	if !v.IsValid() {
		return kind + "|<invalid>"
	}
	switch x := v.Interface().(type) {
	case *url.URL:
		if x == nil {
			return kind + "|<nil>"
		}
		return kind + "|" + x.String()
	case vocab.Type:
		if id := x.GetJSONLDId(); id != nil && id.Get() != nil {
			return kind + "|" + id.Get().String()
		}
		return kind + "|<noid>"
	case time.Time:
		return kind + "|" + x.UTC().Format(time.RFC3339)
	}
	return kind + "|" + fmt.Sprint(v.Interface())
}

// which kind an iterator / functional property reports, and the value it returns for it
func observe(it reflect.Value, kinds []string) string {
	if !it.IsValid() || (it.Kind() == reflect.Interface && it.IsNil()) || (it.Kind() == reflect.Ptr && it.IsNil()) {
		return "<nil>"
	}
	var hits []string
	for _, k := range kinds {
		m := it.MethodByName("Is" + k)
		if !m.IsValid() {
			continue
		}
		if m.Call(nil)[0].Bool() {
			g := it.MethodByName("Get" + k)
			if k == "IRI" {
				g = it.MethodByName("GetIRI")
			}
			if !g.IsValid() {
				g = it.MethodByName("Get")
			}
			if g.IsValid() {
				hits = append(hits, render(k, g.Call(nil)[0]))
			} else {
				hits = append(hits, k+"|?")
			}
		}
	}
	if len(hits) == 0 {
		return "<none>"
	}
	sort.Strings(hits)
	var uniq []string
	for i, h := range hits {
		if i == 0 || h != hits[i-1] {
			uniq = append(uniq, h)
		}
	}
	return strings.Join(uniq, "&")
}

func runContainer(in J) interface{} {
	pe := propByName(fmt.Sprint(in["prop"]))
	if pe == nil {
		return J{"error": "no such property"}
	}
	p := reflect.ValueOf(pe.New())
	kinds := kindsOf(p, pe.Functional)
	obs := J{}
	ops, _ := in["ops"].([]interface{})
	values := map[string]reflect.Value{}
	arg := func(op J) (reflect.Value, bool) {
		tok := fmt.Sprint(op["tok"])
		if v, ok := values[tok]; ok {
			return v, true
		}
		return reflect.Value{}, false
	}
	// values are created by the generator's recipe: kind + n
	mk := func(op J, prefix string) (reflect.Value, bool) {
		kind := fmt.Sprint(op["kind"])
		m := setterOf(p, prefix, kind)
		if !m.IsValid() {
			return reflect.Value{}, false
		}
		v, ok := mkKindValue(m.Type().In(m.Type().NumIn()-1), intOf(op["n"], 0))
		if ok {
			values[render(kind, v)] = v
		}
		return v, ok
	}
	_ = arg
	panicAt := -1
	for i, o := range ops {
		op := jmap(o)
		func() {
			defer func() {
				if r := recover(); r != nil {
					panicAt = i
				}
			}()
			kind := fmt.Sprint(op["kind"])
			switch op["op"] {
			case "decoded":
				// start from the container the decoder builds from a JSON member (an array, or a bare value for one
				// element) instead of from the empty container
				var ids []interface{}
				for k := 0; k < intOf(op["k"], 0); k++ {
					ids = append(ids, fmt.Sprintf("https://v.example/%d", 1000+k))
				}
				var member interface{} = orEmpty(ids)
				if len(ids) == 1 && op["bare"] == true {
					member = ids[0]
				}
				doc := map[string]interface{}{"@context": allCtx, "type": fmt.Sprint(op["host"]), pe.Name: member}
				t, err := streams.ToType(context.Background(), doc)
				if err != nil {
					panic("decode failed: " + err.Error())
				}
				g := reflect.ValueOf(t).MethodByName(pe.Getter)
				if !g.IsValid() {
					panic("no getter " + pe.Getter)
				}
				got := g.Call(nil)[0]
				if got.Kind() == reflect.Interface && got.IsNil() {
					panic("decoded property is nil")
				}
				p = got.Elem()
				if p.Kind() != reflect.Ptr {
					p = got
				}
			case "append":
				v, ok := mk(op, "Append")
				if ok {
					p.MethodByName("Append" + kind).Call([]reflect.Value{v})
				}
			case "prepend":
				v, ok := mk(op, "Prepend")
				if ok {
					p.MethodByName("Prepend" + kind).Call([]reflect.Value{v})
				}
			case "insert":
				v, ok := mk(op, "Insert")
				if ok {
					p.MethodByName("Insert" + kind).Call([]reflect.Value{reflect.ValueOf(intOf(op["i"], 0)), v})
				}
			case "set":
				if op["via"] == "language" {
					// SetLanguage(tag, value) on the slot / on the element: afterwards the slot holds the language map
					// {tag: value} and nothing else
					val := reflect.ValueOf(fmt.Sprintf("s%d", intOf(op["n"], 0)))
					tgt := p
					if !pe.Functional {
						tgt = p.MethodByName("At").Call([]reflect.Value{reflect.ValueOf(intOf(op["i"], 0))})[0]
					}
					tgt.MethodByName("SetLanguage").Call([]reflect.Value{reflect.ValueOf("en"), val})
				} else if pe.Functional {
					v, ok := mk(op, "Set")
					if ok {
						setterOf(p, "Set", kind).Call([]reflect.Value{v})
					}
				} else {
					v, ok := mk(op, "Set")
					if ok {
						setterOf(p, "Set", kind).Call([]reflect.Value{reflect.ValueOf(intOf(op["i"], 0)), v})
					}
				}
			case "badtype":
				// a typed value outside the range, through the generic setter: refused, and nothing changes
				c, ok := badTypeFor(p, pe.Functional)
				if !ok {
					break
				}
				cv := reflect.ValueOf(c)
				iv := reflect.ValueOf(intOf(op["i"], 0))
				var out []reflect.Value
				switch op["how"] {
				case "set":
					if pe.Functional {
						out = p.MethodByName("SetType").Call([]reflect.Value{cv})
					} else {
						out = p.MethodByName("SetType").Call([]reflect.Value{iv, cv})
					}
				case "append":
					out = p.MethodByName("AppendType").Call([]reflect.Value{cv})
				case "prepend":
					out = p.MethodByName("PrependType").Call([]reflect.Value{cv})
				case "insert":
					out = p.MethodByName("InsertType").Call([]reflect.Value{iv, cv})
				}
				if len(out) == 1 && out[0].IsNil() {
					obs["badTypeAccepted"] = true
				}
			case "remove":
				p.MethodByName("Remove").Call([]reflect.Value{reflect.ValueOf(intOf(op["i"], 0))})
			case "swap":
				p.MethodByName("Swap").Call([]reflect.Value{reflect.ValueOf(intOf(op["i"], 0)), reflect.ValueOf(intOf(op["j"], 0))})
			case "clear":
				p.MethodByName("Clear").Call(nil)
			}
		}()
		if panicAt >= 0 {
			break
		}
	}
	obs["panicAt"] = panicAt
	if panicAt >= 0 {
		return obs
	}
	func() {
		defer func() {
			if r := recover(); r != nil {
				obs["observePanic"] = fmt.Sprint(r)
			}
		}()
		if pe.Functional {
			obs["slot"] = observe(p, kinds)
			ser, err := p.MethodByName("Serialize").Call(nil)[0].Interface(), p.MethodByName("Serialize").Call(nil)[1].Interface()
			obs["serNil"] = ser == nil
			obs["serErr"] = err != nil
			return
		}
		n := int(p.MethodByName("Len").Call(nil)[0].Int())
		obs["len"] = n
		var at, fwd, bwd []interface{}
		for i := 0; i < n; i++ {
			at = append(at, observe(p.MethodByName("At").Call([]reflect.Value{reflect.ValueOf(i)})[0], kinds))
		}
		steps := 0
		for it := p.MethodByName("Begin").Call(nil)[0]; !(it.Kind() == reflect.Interface && it.IsNil()); it = it.MethodByName("Next").Call(nil)[0] {
			fwd = append(fwd, observe(it, kinds))
			steps++
			if steps > 4*n+8 {
				fwd = append(fwd, "<does not terminate>")
				break
			}
		}
		if n > 0 {
			steps = 0
			for it := p.MethodByName("At").Call([]reflect.Value{reflect.ValueOf(n - 1)})[0]; !(it.Kind() == reflect.Interface && it.IsNil()); it = it.MethodByName("Prev").Call(nil)[0] {
				bwd = append(bwd, observe(it, kinds))
				steps++
				if steps > 4*n+8 {
					bwd = append(bwd, "<does not terminate>")
					break
				}
			}
		}
		res := p.MethodByName("Serialize").Call(nil)
		serLen := -1
		switch s := res[0].Interface().(type) {
		case []interface{}:
			serLen = len(s)
		case nil:
			serLen = 0
		default:
			serLen = 1
		}
		obs["at"], obs["fwd"], obs["bwd"], obs["serLen"] = orEmpty(at), orEmpty(fwd), orEmpty(bwd), serLen
	}()
	return obs
}

func orEmpty(xs []interface{}) []interface{} {
	if xs == nil {
		return []interface{}{}
	}
	return xs
}

func init() {
	runners["c18"] = &runner{
		prop: "C18",
		gen: func(r *rng, thorough bool, args []string, yield func(in J)) {
			perProp := 60
			if len(args) >= 1 {
				perProp, _ = strconv.Atoi(args[0])
			}
			if thorough {
				perProp *= 6
			}
			for _, pe := range propTable {
				p := reflect.ValueOf(pe.New())
				kinds := kindsOf(p, pe.Functional)
				if len(kinds) == 0 {
					continue
				}
				tokOf := func(kind string, n int, prefix string) (string, bool) {
					m := setterOf(p, prefix, kind)
					if !m.IsValid() {
						return "", false
					}
					v, ok := mkKindValue(m.Type().In(m.Type().NumIn()-1), n)
					if !ok {
						return "", false
					}
					return render(kind, v), true
				}
				if pe.Functional {
					// all set/clear sequences up to length 4 over (up to) 3 kinds
					ks := kinds
					if len(ks) > 3 {
						ks = []string{kinds[0], kinds[len(kinds)/2], kinds[len(kinds)-1]}
					}
					var alphabet []J
					alphabet = append(alphabet, J{"op": "clear"})
					for i, k := range ks {
						if tok, ok := tokOf(k, i+1, "Set"); ok {
							alphabet = append(alphabet, J{"op": "set", "kind": k, "n": i + 1, "tok": tok})
						}
					}
					if pe.NatLang {
						// the language map kind, also through SetLanguage
						if tok, ok := tokOf("RDFLangString", 7, "Set"); ok {
							has := false
							for _, a := range alphabet {
								if a["kind"] == "RDFLangString" {
									has = true
								}
							}
							if !has {
								alphabet = append(alphabet, J{"op": "set", "kind": "RDFLangString", "n": 7, "tok": tok})
							}
							tok8, _ := tokOf("RDFLangString", 8, "Set")
							alphabet = append(alphabet, J{"op": "set", "kind": "RDFLangString", "n": 8, "tok": tok8, "via": "language"})
						}
					}
					if _, ok := badTypeFor(p, true); ok {
						alphabet = append(alphabet, J{"op": "badtype", "how": "set"})
					}
					var rec func(prefix []interface{}, depth int)
					rec = func(prefix []interface{}, depth int) {
						yield(J{"prop": pe.Name, "functional": true, "ops": append([]interface{}{}, prefix...)})
						if depth == 0 {
							return
						}
						for _, a := range alphabet {
							rec(append(append([]interface{}{}, prefix...), a), depth-1)
						}
					}
					d := 3
					if thorough {
						d = 4
					}
					rec(nil, d)
					continue
				}
				_, hasBad := badTypeFor(p, false)
				for c := 0; c < perProp; c++ {
					l := 1 + r.intn(6)
					if c%5 == 4 {
						l = 5 + r.intn(36)
					}
					cur := 0 // current length, to keep most indexes in range
					var ops []interface{}
					// a quarter of the sequences start from a decoded container of 0..4 IRIs (where an IRI string is read
					// as an IRI, i.e. the property's first element kind)
					if c%4 == 3 && pe.Name != "type" && pe.Name != "id" && len(propPlans[pe.Name].Kinds) > 0 && propPlans[pe.Name].Kinds[0] == "iri" {
						host := ""
						for _, tn := range sortedTypeNames() {
							for _, pn := range typeProps[tn] {
								if pn == pe.Name {
									host = tn
								}
							}
							if host != "" {
								break
							}
						}
						if host != "" {
							k := r.intn(5)
							var toks []interface{}
							for j := 0; j < k; j++ {
								if tok, ok := tokOf("IRI", 1000+j, "Append"); ok {
									toks = append(toks, tok)
								}
							}
							if len(toks) == k {
								ops = append(ops, J{"op": "decoded", "k": k, "host": host, "bare": r.bool(), "toks": orEmpty(toks)})
								cur = k
								// half of them are observed as decoded (Prepend / Insert / Remove re-index every element)
								if r.bool() {
									l = 0
								}
							}
						}
					}
					for n := 0; n < l; n++ {
						kind := "IRI"
						if r.chance(40) {
							kind = kinds[r.intn(len(kinds))]
						}
						idx := func(lim int) int {
							if r.chance(7) {
								return lim + r.intn(2) // sometimes out of range
							}
							if lim <= 0 {
								return 0
							}
							return r.intn(lim)
						}
						var op J
						choice := r.intn(8)
						if cur < 3 && r.chance(60) {
							choice = r.intn(4) // grow first: append / prepend / insert
						}
						if cur == 0 && choice >= 4 && !r.chance(10) {
							choice = 0
						}
						switch choice {
						case 0, 1:
							if tok, ok := tokOf(kind, n+1, "Append"); ok {
								op = J{"op": "append", "kind": kind, "n": n + 1, "tok": tok}
								cur++
							}
						case 2:
							if tok, ok := tokOf(kind, n+1, "Prepend"); ok {
								op = J{"op": "prepend", "kind": kind, "n": n + 1, "tok": tok}
								cur++
							}
						case 3:
							i := idx(cur + 1)
							if tok, ok := tokOf(kind, n+1, "Insert"); ok {
								op = J{"op": "insert", "kind": kind, "n": n + 1, "tok": tok, "i": i}
								if i <= cur {
									cur++
								}
							}
						case 4:
							if pe.NatLang && r.chance(40) {
								// the element's SetLanguage: the element then holds the language map {en: value} only
								if tok, ok := tokOf("RDFLangString", n+1, "Set"); ok {
									op = J{"op": "set", "kind": "RDFLangString", "n": n + 1, "tok": tok, "i": idx(cur), "via": "language"}
								}
							} else if tok, ok := tokOf(kind, n+1, "Set"); ok {
								op = J{"op": "set", "kind": kind, "n": n + 1, "tok": tok, "i": idx(cur)}
							}
						case 5:
							i := idx(cur)
							op = J{"op": "remove", "i": i}
							if i < cur {
								cur--
							}
						default:
							op = J{"op": "swap", "i": idx(cur), "j": idx(cur)}
						}
						if op != nil {
							ops = append(ops, op)
						}
						if hasBad && r.chance(12) {
							how := []string{"append", "prepend", "insert", "set"}[r.intn(4)]
							if cur > 0 || how == "append" || how == "prepend" {
								ops = append(ops, J{"op": "badtype", "how": how, "i": idx(cur)})
							}
						}
					}
					yield(J{"prop": pe.Name, "functional": false, "ops": orEmpty(ops)})
				}
			}
		},
		run: runContainer,
	}
}
