// Correspondence harness: drives the real go-fed/activity code in-process and
// writes one JSON line per case (input + canonical observation) to stdout.
//
//   harness <runner> [--replay file] [runner args]
package main

import (
	"encoding/json"
	"fmt"
	"io/ioutil"
	"os"
	"sync/atomic"
	"time"
)

// A runner generates self-contained inputs and executes one input against the
// real code. Replaying = executing a stored input again.
type runner struct {
	prop string
	gen  func(r *rng, thorough bool, args []string, yield func(in J))
	run  func(in J) interface{}
}

var runners = map[string]*runner{}

func main() {
	if len(os.Args) < 2 {
		fmt.Fprintln(os.Stderr, "usage: harness <runner> [--replay file] [args]")
		os.Exit(2)
	}
	r, ok := runners[os.Args[1]]
	if !ok {
		fmt.Fprintf(os.Stderr, "harness: unknown runner %q\n", os.Args[1])
		os.Exit(2)
	}
	args := os.Args[2:]
	e := newEmitter(r.prop)
	defer e.close()
	if len(args) >= 2 && args[0] == "--replay" {
		b, err := ioutil.ReadFile(args[1])
		if err != nil {
			fmt.Fprintln(os.Stderr, "harness:", err)
			os.Exit(2)
		}
		var doc struct {
			Input J `json:"input"`
		}
		if err := json.Unmarshal(b, &doc); err != nil || doc.Input == nil {
			fmt.Fprintln(os.Stderr, "harness: replay file has no input:", err)
			os.Exit(2)
		}
		e.emit(doc.Input, r.run(doc.Input))
		return
	}
	r.gen(newRng(envSeed()), tierThorough(), args, func(in J) {
		// three operations that never returned are enough to report; their goroutines are still spinning, and
		// every further case would only wait out its limit next to them
		if atomic.LoadInt32(&hangSeen) >= 3 && os.Getenv("VERIF_DRY") == "" {
			return
		}
		// round-trip the input through JSON so that generation and replay see the same thing
		b, _ := json.Marshal(in)
		var in2 J
		json.Unmarshal(b, &in2)
		if os.Getenv("VERIF_DRY") != "" {
			// list the inputs only (used to recover the input on which the process crashed)
			e.emit(in2, nil)
			return
		}
		e.emit(in2, r.run(in2))
	})
}

// waitDone waits for a single operation of the code under test.  The limit is generous (a loaded machine must not be
// mistaken for a hang) until a first hang has been seen in this process; after that the stuck goroutine is spinning
// and later operations get the short limit.
var hangSeen int32

func waitDone(done <-chan struct{}, base time.Duration) bool {
	limit := 6 * base
	if atomic.LoadInt32(&hangSeen) != 0 {
		limit = base
	}
	select {
	case <-done:
		return true
	case <-time.After(limit):
		atomic.AddInt32(&hangSeen, 1)
		return false
	}
}
