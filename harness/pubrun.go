package main

import (
	"bytes"
	"context"
	"encoding/json"
	"errors"
	"fmt"
	"io"
	"net/http"
	"net/url"
	"sort"
	"strings"
	"time"

	"github.com/go-fed/activity/pub"
	"github.com/go-fed/activity/streams"
)

// Executes one pub scenario (a world + a list of request steps on one Actor
// value) against the real code and returns, per step, the recorded trace and
// outcome together with the abstraction of the request the model needs.

type failingReader struct{}

func (failingReader) Read(p []byte) (int, error) { return 0, errors.New("body read failure") }

func errClassPub(err error) string {
	switch err {
	case nil:
		return "nil"
	case pub.ErrObjectRequired:
		return "objectRequired"
	case pub.ErrTargetRequired:
		return "targetRequired"
	case pub.ErrNotFound:
		return "notFound"
	case errInjected:
		return "injected"
	}
	if strings.Contains(err.Error(), "injected fault") {
		return "injected"
	}
	return "lib"
}

// classify a request body the way PostInboxScheme/PostOutboxScheme will see it
func classifyBody(raw []byte, readFails bool) J {
	if readFails {
		return J{"k": "readErr"}
	}
	var m map[string]interface{}
	if err := json.Unmarshal(raw, &m); err != nil {
		return J{"k": "badJson"}
	}
	if m == nil {
		return J{"k": "jnull"}
	}
	rawm := jmap(stripContext(deepCopy(m)))
	t, err := streams.ToType(context.Background(), m)
	if err != nil {
		return J{"k": "undecodable", "raw": rawm, "unmatched": streams.IsUnmatchedErr(err)}
	}
	return J{"k": "val", "raw": rawm, "v": snap(t)}
}

func bodyBytes(b interface{}) ([]byte, bool) {
	switch v := b.(type) {
	case map[string]interface{}:
		if raw, ok := v["__raw"].(string); ok {
			return []byte(raw), false
		}
		if v["__readErr"] != nil {
			return nil, true
		}
		m := jmap(deepCopy(v))
		if _, ok := m["@context"]; !ok && m["__nocontext"] == nil {
			m["@context"] = allCtx
		}
		delete(m, "__nocontext")
		out, _ := json.Marshal(m)
		return out, false
	case nil:
		return []byte("null"), false
	}
	out, _ := json.Marshal(b)
	return out, false
}

type stepResult struct {
	In  J
	Obs J
}

func runPubScenario(sc J) []stepResult {
	world := newWorld(jmap(sc["world"]), intOf(sc["fault"], 0))
	db := fakeDB{world}
	clock := fakeClock{world}
	common := fakeCommon{world}
	fed := fakeFed{common}
	social := fakeSocial{world}
	cfg := jmap(sc["cfg"])
	kind, _ := cfg["kind"].(string)
	var actor pub.Actor
	var fedActor pub.FederatingActor
	switch kind {
	case "social":
		actor = pub.NewSocialActor(common, social, db, clock)
	case "federating":
		fedActor = pub.NewFederatingActor(common, fed, db, clock)
		actor = fedActor
	case "none":
		actor = pub.NewCustomActor(fakeDelegate{world}, false, false, clock)
	default:
		kind = "both"
		fedActor = pub.NewActor(common, social, fed, db, clock)
		actor = fedActor
	}
	handler := pub.NewActivityStreamsHandler(db, clock)
	var out []stepResult
	steps, _ := sc["steps"].([]interface{})
	for si, st := range steps {
		step := jmap(st)
		if f, ok := step["fault"]; ok {
			world.fault = world.nFall + intOf(f, 0)
			if intOf(f, 0) == 0 {
				world.fault = 0
			}
		} else if si > 0 {
			world.fault = 0
		}
		start := len(world.trace)
		entry, _ := step["entry"].(string)
		method, _ := step["method"].(string)
		header, _ := step["header"].(string)
		host, _ := step["host"].(string)
		path, _ := step["path"].(string)
		box := "https://" + host + path
		min := J{"entry": entry, "kind": kind, "method": method, "header": header, "box": box,
			"fedOther": cbConfigOf(world.spec["fedCallbacks"])["other"], "socOther": cbConfigOf(world.spec["socialCallbacks"])["other"]}
		if sc["wantGraph"] != nil {
			// ground truth for the delivery oracle: what every remote document dereferences to, and the stored inboxes
			docs := J{}
			for u, doc := range jmap(world.spec["remote"]) {
				docs[u] = okR(classifyDoc(docBytes(doc)))
			}
			min["remoteDocs"] = docs
			min["inboxFor"] = world.spec["inboxFor"]
			min["owned"] = world.spec["owned"]
			min["maxDeliveryDepth"] = world.spec["maxDeliveryDepth"]
			// the sender: the actor the application names for this outbox, and its stored document
			if owner, ok := jmap(world.spec["actorForOutbox"])[box].(string); ok {
				min["sender"] = owner
				min["senderDoc"] = jmap(world.spec["store"])[owner]
			}
		}
		obs := J{}
		func() {
			defer func() {
				if r := recover(); r != nil {
					obs["panic"] = fmt.Sprint(r)
				}
			}()
			done := make(chan struct{})
			go func() {
				defer close(done)
				defer func() {
					if r := recover(); r != nil {
						obs["panic"] = fmt.Sprint(r)
					}
				}()
				ctx := context.Background()
				if entry == "send" {
					v, err := mkValue(jmap(step["value"]))
					if err != nil {
						obs["setupError"] = err.Error()
						return
					}
					min["value"] = snap(v)
					u, _ := url.Parse(box)
					a, err := fedActor.Send(ctx, u, v)
					obs["err"] = errClassPub(err)
					if a != nil && !isNilValueIface(a) && err == nil {
						obs["returned"] = snap(a)
					}
					return
				}
				raw, readFails := bodyBytes(step["body"])
				var body io.Reader = bytes.NewReader(raw)
				if readFails {
					body = failingReader{}
				}
				req, err := http.NewRequest(method, "http://"+host+path, body)
				if err != nil {
					obs["setupError"] = err.Error()
					return
				}
				req.Host = host
				hname := "Content-Type"
				if entry == "getInbox" || entry == "getOutbox" || entry == "handler" {
					hname = "Accept"
				}
				if header != "" {
					req.Header.Set(hname, header)
				}
				// the header the classification must NOT look at (Content-Type of a GET, Accept of a POST)
				if oh, ok := step["otherHeader"].(string); ok && oh != "" {
					if hname == "Accept" {
						req.Header.Set("Content-Type", oh)
					} else {
						req.Header.Set("Accept", oh)
					}
				}
				if entry == "postInbox" || entry == "postOutbox" {
					min["body"] = classifyBody(raw, readFails)
				}
				cw := &countingWriter{w: world, header: http.Header{}, short: step["shortWrite"] != nil}
				if step["staleHeaders"] != nil {
					// an outer handler or middleware already set these: the library's values replace them
					cw.header.Set("Content-Type", "text/plain; charset=utf-8")
					cw.header.Set("Date", "Mon, 01 Jan 2001 00:00:00 GMT")
					cw.header.Set("Digest", "SHA-256=stale")
				}
				before := http.Header{}
				for k, vs := range cw.header {
					before[k] = append([]string{}, vs...)
				}
				var handled bool
				switch entry {
				case "postInbox":
					handled, err = actor.PostInbox(ctx, cw, req)
				case "postOutbox":
					handled, err = actor.PostOutbox(ctx, cw, req)
				case "getInbox":
					handled, err = actor.GetInbox(ctx, cw, req)
				case "getOutbox":
					handled, err = actor.GetOutbox(ctx, cw, req)
				case "handler":
					handled, err = handler(ctx, cw, req)
				default:
					obs["setupError"] = "unknown entry " + entry
					return
				}
				obs["handled"] = handled
				obs["err"] = errClassPub(err)
				// what the library did to the header map (beyond what was there before the request)
				var touched []interface{}
				for k, vs := range cw.header {
					if strings.Join(vs, "|") != strings.Join(before[k], "|") {
						touched = append(touched, k)
					}
				}
				for k := range before {
					if _, ok := cw.header[k]; !ok {
						touched = append(touched, k)
					}
				}
				sort.Slice(touched, func(i, j int) bool { return touched[i].(string) < touched[j].(string) })
				obs["headersTouched"] = orEmpty(touched)
				// afterwards a middleware edits the header values it was given in place; that is its own response
				for _, vs := range cw.header {
					for i := range vs {
						vs[i] += "; edited-by-middleware"
					}
				}
			}()
			if !waitDone(done, 10*time.Second) {
				obs["hang"] = true
			}
		}()
		world.mu.Lock()
		obs["trace"] = deepCopy(world.trace[start:])
		held := []interface{}{}
		for k, n := range world.held {
			for i := 0; i < n; i++ {
				held = append(held, k)
			}
		}
		obs["heldAtEnd"] = held
		lt := []interface{}{}
		for _, s := range world.lockTrouble {
			lt = append(lt, s)
		}
		obs["lockTrouble"] = lt
		world.lockTrouble = nil
		// a leaked lock would block every later step on that id; the harness releases it and reports it
		for k := range world.held {
			delete(world.held, k)
		}
		obs["fallible"] = world.nFall
		world.mu.Unlock()
		if kt := world.keptTrouble(); len(kt) > 0 {
			obs["keptTrouble"] = kt
		}
		out = append(out, stepResult{In: min, Obs: obs})
	}
	return out
}
