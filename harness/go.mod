module avharness

go 1.12

require (
	github.com/go-fed/activity v0.0.0
	github.com/go-fed/httpsig v0.1.1-0.20190914113940-c2de3672e5b5
)

replace github.com/go-fed/activity => /repo
