package main

import (
	"bytes"
	"context"
	"crypto"
	"crypto/rand"
	"crypto/rsa"
	"errors"
	"fmt"
	"io/ioutil"
	"net/http"
	"net/url"
	"sort"
	"strconv"
	"sync"
	"time"

	"github.com/go-fed/activity/pub"
	"github.com/go-fed/httpsig"
)

// C19: the bundled HttpSigTransport with a recording signer and a scripted HTTP client.

type sigRecord struct {
	Key     string
	KeyID   string
	Method  string
	URL     string
	Headers map[string][]string
	Body    string
	HasBody bool
}

type recSigner struct {
	mu   *sync.Mutex
	recs *[]sigRecord
	fail bool
}

func (s recSigner) SignRequest(pKey crypto.PrivateKey, pubKeyId string, r *http.Request, body []byte) error {
	rec := sigRecord{Key: fmt.Sprint(pKey), KeyID: pubKeyId, Method: r.Method, URL: r.URL.String(), Headers: map[string][]string{}, Body: string(body), HasBody: body != nil}
	for k, v := range r.Header {
		rec.Headers[k] = append([]string{}, v...)
	}
	s.mu.Lock()
	*s.recs = append(*s.recs, rec)
	s.mu.Unlock()
	if s.fail {
		return errors.New("signer failed")
	}
	r.Header.Set("Signature", "recorded")
	return nil
}
func (s recSigner) SignResponse(pKey crypto.PrivateKey, pubKeyId string, r http.ResponseWriter, body []byte) error {
	return nil
}

type doRecord struct {
	Method  string
	URL     string
	Headers map[string][]string
	Body    string
}

type scriptedClient struct {
	mu     *sync.Mutex
	recs   *[]doRecord
	script map[string][]interface{} // url -> answers in order of arrival: status code (float) or "err"
	served map[string]int
	verify func(r *http.Request) error
	verr   *[]string
	slowOK bool // successful answers take a moment and honour the request's context
}

func (c scriptedClient) Do(req *http.Request) (*http.Response, error) {
	var body []byte
	if req.Body != nil {
		body, _ = ioutil.ReadAll(req.Body)
	}
	rec := doRecord{Method: req.Method, URL: req.URL.String(), Headers: map[string][]string{}, Body: string(body)}
	for k, v := range req.Header {
		rec.Headers[k] = append([]string{}, v...)
	}
	c.mu.Lock()
	*c.recs = append(*c.recs, rec)
	u := req.URL.String()
	n := c.served[u]
	c.served[u] = n + 1
	var ans interface{} = 200.0
	if as := c.script[u]; len(as) > 0 {
		ans = as[n%len(as)]
	}
	if c.verify != nil {
		if err := c.verify(req); err != nil {
			*c.verr = append(*c.verr, err.Error())
		}
	}
	c.mu.Unlock()
	if s, ok := ans.(string); ok {
		return nil, errors.New("transport error: " + s)
	}
	code := intOf(ans, 200)
	if c.slowOK && code >= 200 && code < 300 {
		// like net/http: an answer takes a moment, and a request whose context is cancelled meanwhile fails
		select {
		case <-time.After(6 * time.Millisecond):
		case <-req.Context().Done():
			return nil, req.Context().Err()
		}
	}
	if err := req.Context().Err(); err != nil {
		return nil, err
	}
	return &http.Response{StatusCode: code, Status: strconv.Itoa(code) + " " + http.StatusText(code),
		Body: ioutil.NopCloser(bytes.NewReader([]byte("body-of-" + u))), Header: http.Header{}, Request: req}, nil
}

type fixedClock struct{ t time.Time }

func (c fixedClock) Now() time.Time { return c.t }

var c19Key *rsa.PrivateKey

func runTransport(in J) interface{} {
	mu := &sync.Mutex{}
	var sigs []sigRecord
	var dos []doRecord
	var verr []string
	script := map[string][]interface{}{}
	for k, v := range jmap(in["script"]) {
		script[k] = jlist(v)
	}
	now := time.Unix(int64(intOf(in["now"], 1600000000)), 0)
	client := scriptedClient{mu: mu, recs: &dos, script: script, served: map[string]int{}, verr: &verr, slowOK: in["slowOK"] == true}
	var getS, postS httpsig.Signer
	keyID := "https://a.example/users/alice#main-key"
	var key crypto.PrivateKey = "the-actor-key"
	real, _ := in["signer"].(string)
	if real == "rsa" {
		if c19Key == nil {
			c19Key, _ = rsa.GenerateKey(rand.Reader, 1024)
		}
		key = c19Key
		hdrs := []string{"(request-target)", "date", "host"}
		if in["digest"] != nil {
			hdrs = append(hdrs, "digest")
		}
		g, _, err1 := httpsig.NewSigner([]httpsig.Algorithm{httpsig.RSA_SHA256}, httpsig.DigestSha256, []string{"(request-target)", "date", "host"}, httpsig.Signature)
		p, _, err2 := httpsig.NewSigner([]httpsig.Algorithm{httpsig.RSA_SHA256}, httpsig.DigestSha256, hdrs, httpsig.Signature)
		if err1 != nil || err2 != nil {
			return J{"setupError": fmt.Sprint(err1, err2)}
		}
		getS, postS = g, p
		client.verify = func(r *http.Request) error {
			v, err := httpsig.NewVerifier(r)
			if err != nil {
				return err
			}
			return v.Verify(c19Key.Public(), httpsig.RSA_SHA256)
		}
	} else {
		getS = recSigner{mu: mu, recs: &sigs, fail: in["signerFails"] != nil}
		postS = recSigner{mu: mu, recs: &sigs, fail: in["signerFails"] != nil}
	}
	t := pub.NewHttpSigTransport(client, fmt.Sprint(in["appAgent"]), fixedClock{now}, getS, postS, keyID, key)
	obs := J{}
	ctx := context.Background()
	done := make(chan struct{})
	go func() {
		defer close(done)
		defer func() {
			if r := recover(); r != nil {
				obs["panic"] = fmt.Sprint(r)
			}
		}()
		switch in["call"] {
		case "deref":
			u, _ := url.Parse(fmt.Sprint(in["url"]))
			b, err := t.Dereference(ctx, u)
			obs["ok"] = err == nil
			if err == nil {
				obs["body"] = string(b)
			} else {
				obs["err"] = err.Error()
			}
		case "deliver":
			u, _ := url.Parse(fmt.Sprint(in["url"]))
			err := t.Deliver(ctx, []byte(fmt.Sprint(in["payload"])), u)
			obs["ok"] = err == nil
			if err != nil {
				obs["err"] = err.Error()
			}
		case "batch":
			var rs []*url.URL
			for _, r := range jlist(in["recipients"]) {
				u, _ := url.Parse(fmt.Sprint(r))
				rs = append(rs, u)
			}
			conc := intOf(in["concurrent"], 1)
			errsOut := make([]error, conc)
			var wg sync.WaitGroup
			for k := 0; k < conc; k++ {
				wg.Add(1)
				go func(k int) {
					defer wg.Done()
					errsOut[k] = t.BatchDeliver(ctx, []byte(fmt.Sprint(in["payload"])), rs)
				}(k)
			}
			wg.Wait()
			obs["ok"] = errsOut[0] == nil
			if errsOut[0] != nil {
				obs["err"] = errsOut[0].Error()
			}
			oks := 0
			for _, e := range errsOut {
				if e == nil {
					oks++
				}
			}
			obs["batchesOk"] = oks
		}
	}()
	if !waitDone(done, 5*time.Second) {
		// the call never returned: report that alone (the stuck goroutines still own obs)
		return J{"hang": true}
	}
	mu.Lock()
	defer mu.Unlock()
	sort.SliceStable(dos, func(i, j int) bool { return dos[i].URL < dos[j].URL })
	sort.SliceStable(sigs, func(i, j int) bool { return sigs[i].URL < sigs[j].URL })
	var dj, sj []interface{}
	for _, d := range dos {
		dj = append(dj, J{"method": d.Method, "url": d.URL, "headers": hdrJ(d.Headers), "body": d.Body})
	}
	for _, s := range sigs {
		sj = append(sj, J{"key": s.Key, "keyId": s.KeyID, "method": s.Method, "url": s.URL, "headers": hdrJ(s.Headers), "body": s.Body, "hasBody": s.HasBody})
	}
	obs["do"], obs["sign"] = orEmpty(dj), orEmpty(sj)
	vs := []interface{}{}
	for _, v := range verr {
		vs = append(vs, v)
	}
	obs["verifyErrors"] = vs
	return obs
}

func hdrJ(h map[string][]string) J {
	o := J{}
	for k, v := range h {
		var xs []interface{}
		for _, s := range v {
			xs = append(xs, s)
		}
		o[k] = xs
	}
	return o
}

func init() {
	runners["c19"] = &runner{
		prop: "C19",
		gen: func(r *rng, thorough bool, args []string, yield func(in J)) {
			n := 300
			if len(args) >= 1 {
				n, _ = strconv.Atoi(args[0])
			}
			if thorough {
				n *= 6
			}
			// origins: no port, another port, and the scheme's default port spelt out (the Host header is the IRI's
			// authority as written)
			hosts := []string{"https://b.example", "https://c.example:8443", "https://d.example", "https://e.example:443", "http://f.example:80", "http://g.example"}
			statuses := []interface{}{200.0, 201.0, 202.0, 204.0, 301.0, 400.0, 401.0, 404.0, 410.0, 500.0, 503.0, 100.0, 199.0, 203.0, 599.0, "reset", "timeout"}
			// every status for single calls
			for c := 100; c <= 599; c++ {
				if !thorough && c%7 != 0 && c != 200 && c != 201 && c != 202 && c != 203 && c != 199 {
					continue
				}
				u := hosts[c%len(hosts)] + "/x"
				yield(J{"call": "deref", "url": u, "appAgent": "app/1", "now": 1600000000 + c, "script": J{u: []interface{}{float64(c)}}})
				yield(J{"call": "deliver", "url": u, "payload": `{"type":"Note"}`, "appAgent": "app/1", "now": 1600000000 + c, "script": J{u: []interface{}{float64(c)}}})
			}
			for i := 0; i < n; i++ {
				nr := r.intn(9)
				if i%10 == 9 {
					nr = r.intn(65)
				}
				manyFail := i%25 == 24 // a large batch in which most or all attempts fail: every failure is named
				if manyFail {
					nr = 40 + r.intn(25)
				}
				var rs []interface{}
				script := J{}
				for k := 0; k < nr; k++ {
					u := fmt.Sprintf("%s/users/u%d/inbox", hosts[r.intn(len(hosts))], r.intn(nr+2))
					rs = append(rs, u)
					if _, ok := script[u]; !ok {
						var as []interface{}
						for j, m := 0, 1+r.intn(2); j < m; j++ {
							if r.chance(55) && !manyFail {
								as = append(as, statuses[r.intn(3)])
							} else {
								as = append(as, statuses[r.intn(len(statuses))])
							}
						}
						script[u] = as
					}
				}
				in := J{"call": "batch", "recipients": orEmpty(rs), "payload": fmt.Sprintf(`{"type":"Note","content":"p%d"}`, i), "appAgent": fmt.Sprintf("app/%d", r.intn(3)), "now": 1500000000 + r.intn(200000000), "script": script}
				if i%3 == 0 {
					in["slowOK"] = true
				}
				if r.chance(15) {
					in["concurrent"] = 2 + r.intn(3)
				}
				if r.chance(5) {
					in["signerFails"] = true
				}
				if r.chance(20) {
					in["signer"] = "rsa"
					// the real signer does not fail; "the signer fails" is a case of the recording signer only
					delete(in, "signerFails")
					if r.bool() {
						in["digest"] = true
					}
				}
				yield(in)
			}
		},
		run: runTransport,
	}
}
