package main

import (
	"context"
	"encoding/json"
	"fmt"
	"sort"
	"strconv"
	"time"

	"github.com/go-fed/activity/streams"
)

// C01: decode -> encode of whole documents.  Documents are derived from the grammar of the shipped vocabularies
// (type x property x value kind, nesting, lists, language maps, unknown members) and from the embedded examples.

type docGen struct {
	r   *rng
	seq int
}

func (g *docGen) id() string {
	g.seq++
	return fmt.Sprintf("https://x.example/i/%d", g.seq)
}

// a canonical value of a literal kind
func (g *docGen) literal(kind string) interface{} {
	g.seq++
	switch kind {
	case "xsd:string":
		if g.seq%13 == 0 {
			return ""
		}
		return fmt.Sprintf("s%d", g.seq)
	case "xsd:boolean":
		return g.seq%2 == 0
	case "xsd:nonNegativeInteger":
		return float64(g.seq % 50)
	case "xsd:float":
		return float64(g.seq%50) + 0.5
	case "xsd:dateTime":
		// RFC 3339 with whole seconds, UTC or a numeric offset (what the encoder writes back verbatim)
		if g.seq%37 == 0 {
			// the ends of the range and the instants a time library treats specially
			return []string{"0001-01-01T00:00:00Z", "0001-01-01T05:30:00+05:30", "9999-12-31T23:59:59Z", "1970-01-01T00:00:00Z", "0001-01-01T00:00:01Z", "1969-12-31T23:59:59Z"}[(g.seq/37)%6]
		}
		zone := []string{"Z", "Z", "+02:00", "-07:30"}[g.seq%4]
		return fmt.Sprintf("%04d-%02d-%02dT%02d:%02d:%02d%s", 1990+g.seq%60, 1+g.seq%12, 1+g.seq%28, g.seq%24, (g.seq/3)%60, g.seq%60, zone)
	case "xsd:duration":
		// every shape of the canonical lexical form: optional sign, any subset (not empty) of the components, each
		// within the range the encoder itself would write (a year is 8760 h, a month 720 h)
		n := g.seq
		parts := []struct {
			on  bool
			val int
			suf string
		}{
			{n%2 == 0, 1 + n%40, "Y"}, {n%3 == 0, 1 + n%11, "M"}, {n%5 < 2, 1 + n%29, "D"},
			{n%7 < 3, 1 + n%23, "H"}, {n%4 == 1, 1 + n%59, "M"}, {n%3 != 0, 1 + (n/2)%59, "S"},
		}
		date, tm := "", ""
		for i, p := range parts {
			if !p.on {
				continue
			}
			if i < 3 {
				date += fmt.Sprintf("%d%s", p.val, p.suf)
			} else {
				tm += fmt.Sprintf("%d%s", p.val, p.suf)
			}
		}
		if date == "" && tm == "" {
			tm = "5S"
		}
		d := "P" + date
		if tm != "" {
			d += "T" + tm
		}
		if n%9 == 4 {
			d = "-" + d
		}
		return d
	case "xsd:anyURI":
		return g.id()
	case "rdf:langString":
		if g.seq%9 == 0 {
			return map[string]interface{}{} // an empty language map is still a member
		}
		return map[string]interface{}{"en": fmt.Sprintf("e%d", g.seq), "fr": "f"}
	case "rfc:bcp47":
		return "en-GB"
	case "rfc:rfc2045":
		return "text/plain"
	case "rfc:rfc5988":
		return "next"
	}
	return "?"
}

func sortedTypeNames() []string {
	var ns []string
	for n := range typeProps {
		ns = append(ns, n)
	}
	sort.Strings(ns)
	return ns
}

// a value of the given kind label ("iri", "ty:Note", "lit:xsd:string")
func (g *docGen) value(kind string, depth int, canonical bool) interface{} {
	switch {
	case kind == "iri":
		return g.id()
	case len(kind) > 3 && kind[:3] == "ty:":
		return g.object(kind[3:], depth-1, canonical)
	case len(kind) > 4 && kind[:4] == "lit:":
		return g.literal(kind[4:])
	}
	return nil
}

func (g *docGen) object(ty string, depth int, canonical bool) map[string]interface{} {
	o := map[string]interface{}{"type": ty}
	if g.r.chance(70) {
		o["id"] = g.id()
	}
	props := typeProps[ty]
	if depth <= 0 || len(props) == 0 {
		return o
	}
	n := 1 + g.r.intn(4)
	for k := 0; k < n; k++ {
		pn := props[g.r.intn(len(props))]
		if pn == "type" || pn == "id" {
			continue
		}
		pl := propPlans[pn]
		if len(pl.Kinds) == 0 {
			continue
		}
		pick := func() interface{} {
			kind := pl.Kinds[g.r.intn(len(pl.Kinds))]
			if depth <= 1 && len(kind) > 3 && kind[:3] == "ty:" {
				kind = "iri"
			}
			return g.value(kind, depth, canonical)
		}
		// one spelling per natural-language member in a canonical document
		if pl.NatLang {
			if _, has := o[pn]; has {
				continue
			}
			if _, has := o[pn+"Map"]; has {
				continue
			}
		}
		if pl.Functional {
			v := pick()
			if mm, isMap := v.(map[string]interface{}); isMap && pl.NatLang && mm["type"] == nil {
				o[pn+"Map"] = v
			} else {
				o[pn] = v
			}
			continue
		}
		cnt := 1
		if g.r.chance(35) {
			cnt = 2 + g.r.intn(3)
		}
		if cnt == 1 {
			v := pick()
			// a single language map is spelled <name>Map in canonical documents
			if _, isMap := v.(map[string]interface{}); isMap && pl.NatLang {
				if mm := v.(map[string]interface{}); mm["type"] == nil {
					o[pn+"Map"] = v
					continue
				}
			}
			o[pn] = v
		} else {
			var xs []interface{}
			for j := 0; j < cnt; j++ {
				xs = append(xs, pick())
			}
			o[pn] = xs
		}
	}
	if !canonical {
		// non-canonical spellings and oddities: one-element arrays, nulls, nested arrays, a nested @context,
		// both spellings of a natural-language member
		switch g.r.intn(7) {
		case 0:
			for k, v := range o {
				if _, isArr := v.([]interface{}); !isArr && k != "type" && k != "id" && g.r.chance(40) {
					o[k] = []interface{}{v}
				}
			}
		case 1:
			if len(props) > 0 {
				o[props[g.r.intn(len(props))]] = nil
			}
		case 2:
			o["x-nested"] = []interface{}{[]interface{}{"a"}, "b"}
			if len(props) > 0 {
				pn := props[g.r.intn(len(props))]
				if !propPlans[pn].Functional && pn != "type" {
					o[pn] = []interface{}{[]interface{}{g.id()}}
				}
			}
		case 3:
			o["@context"] = "https://www.w3.org/ns/activitystreams"
		case 4:
			for _, pn := range props {
				if propPlans[pn].NatLang && g.r.chance(50) {
					o[pn] = "plain"
					o[pn+"Map"] = map[string]interface{}{"en": "mapped"}
					break
				}
			}
		case 5:
			o["type"] = []interface{}{ty, "x:Custom"}
		}
	}
	// unknown / extension members, kept verbatim
	if g.r.chance(40) {
		o["x-ext"] = g.r.pick([]string{"v", "w"})
	}
	if g.r.chance(15) {
		o["x-obj"] = map[string]interface{}{"a": []interface{}{1.0, "two", nil}, "b": map[string]interface{}{"c": true}}
	}
	if g.r.chance(10) {
		o["x-null"] = nil
	}
	return o
}

func roundTrip(doc map[string]interface{}) J {
	res := J{}
	done := make(chan struct{})
	go func() {
		defer close(done)
		defer func() {
			if r := recover(); r != nil {
				res["panic"] = fmt.Sprint(r)
			}
		}()
		// through bytes, as a document arrives
		b, _ := json.Marshal(doc)
		var m map[string]interface{}
		json.Unmarshal(b, &m)
		t, err := streams.ToType(context.Background(), m)
		if err != nil {
			res["err"] = err.Error()
			return
		}
		out, err := streams.Serialize(t)
		if err != nil {
			res["serr"] = err.Error()
			return
		}
		b1, _ := json.Marshal(out)
		var o1 map[string]interface{}
		json.Unmarshal(b1, &o1)
		res["out"] = o1
		// a second round trip
		t2, err := streams.ToType(context.Background(), deepCopy(o1).(map[string]interface{}))
		if err != nil {
			res["err2"] = err.Error()
			return
		}
		out2, err := streams.Serialize(t2)
		if err != nil {
			res["serr2"] = err.Error()
			return
		}
		b2, _ := json.Marshal(out2)
		var o2 map[string]interface{}
		json.Unmarshal(b2, &o2)
		res["out2"] = o2
	}()
	if !waitDone(done, 5*time.Second) {
		return J{"hang": true}
	}
	return res
}

func init() {
	runners["c01"] = &runner{
		prop: "C01",
		gen: func(r *rng, thorough bool, args []string, yield func(in J)) {
			perType := 12
			if len(args) >= 1 {
				perType, _ = strconv.Atoi(args[0])
			}
			if thorough {
				perType *= 8
			}
			g := &docGen{r: r}
			ctxAll := []interface{}{"https://www.w3.org/ns/activitystreams", "https://w3id.org/security/v1", "http://joinmastodon.org/ns", "https://forgefed.peers.community/ns"}
			for _, exs := range vocabExamples {
				var ex map[string]interface{}
				json.Unmarshal([]byte(exs), &ex)
				if ex == nil {
					continue
				}
				ex["@context"] = ctxAll
				yield(J{"doc": ex, "canonical": false, "src": "example"})
			}
			// every (type, property, kind) once, flat and canonical
			for _, ty := range sortedTypeNames() {
				for _, pn := range typeProps[ty] {
					if pn == "type" || pn == "id" {
						continue
					}
					for ki, kind := range propPlans[pn].Kinds {
						// quick tier: every literal kind and the IRI, and a rotating sample of the type kinds
						if !thorough && len(kind) > 3 && kind[:3] == "ty:" && (ki+len(ty)+len(pn))%11 != 0 {
							continue
						}
						o := map[string]interface{}{"type": ty, "id": g.id(), "@context": ctxAll}
						v := g.value(kind, 2, true)
						if mm, isMap := v.(map[string]interface{}); isMap && propPlans[pn].NatLang && mm["type"] == nil {
							o[pn+"Map"] = v
						} else {
							o[pn] = v
						}
						yield(J{"doc": o, "canonical": true, "src": "grid"})
						if !propPlans[pn].Functional && !thorough && r.chance(70) {
							continue
						}
						if !propPlans[pn].Functional {
							o2 := map[string]interface{}{"type": ty, "@context": ctxAll, pn: []interface{}{g.value(kind, 2, true), g.id(), g.value(kind, 2, true)}}
							yield(J{"doc": o2, "canonical": true, "src": "grid-list"})
						}
					}
				}
			}
			for _, ty := range sortedTypeNames() {
				for k := 0; k < perType; k++ {
					canonical := k%2 == 0
					o := g.object(ty, 1+r.intn(3), canonical)
					o["@context"] = ctxAll
					yield(J{"doc": o, "canonical": canonical, "src": "random"})
				}
			}
		},
		run: func(in J) interface{} {
			doc, _ := in["doc"].(map[string]interface{})
			if doc == nil {
				return J{"err": "not an object"}
			}
			return roundTrip(doc)
		},
	}
}
