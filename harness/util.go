package main

import (
	"bufio"
	"encoding/json"
	"fmt"
	"os"
	"strconv"
)

// splitmix64: every random choice of a run derives from this one state.
type rng struct{ s uint64 }

func newRng(seed uint64) *rng { return &rng{s: seed*0x9E3779B97F4A7C15 + 0x1234567} }
func (r *rng) next() uint64 {
	r.s += 0x9E3779B97F4A7C15
	z := r.s
	z = (z ^ (z >> 30)) * 0xBF58476D1CE4E5B9
	z = (z ^ (z >> 27)) * 0x94D049BB133111EB
	return z ^ (z >> 31)
}
func (r *rng) intn(n int) int {
	if n <= 0 {
		return 0
	}
	return int(r.next() % uint64(n))
}
func (r *rng) bool() bool      { return r.next()&1 == 1 }
func (r *rng) chance(p int) bool { return r.intn(100) < p }
func (r *rng) pick(xs []string) string {
	return xs[r.intn(len(xs))]
}

func envSeed() uint64 {
	if s := os.Getenv("VERIF_SEED"); s != "" {
		if v, err := strconv.ParseUint(s, 10, 64); err == nil {
			return v
		}
		if v, err := strconv.ParseInt(s, 10, 64); err == nil {
			return uint64(v)
		}
	}
	return 1
}

func tierThorough() bool { return os.Getenv("VERIF_TIER") == "thorough" }

type J = map[string]interface{}

type emitter struct {
	w    *bufio.Writer
	n    int
	prop string
}

func newEmitter(prop string) *emitter {
	return &emitter{w: bufio.NewWriterSize(os.Stdout, 1<<20), prop: prop}
}

func (e *emitter) emit(in, obs interface{}) {
	line := J{"p": e.prop, "case": e.n, "in": in, "obs": obs}
	b, err := json.Marshal(line)
	if err != nil {
		fmt.Fprintf(os.Stderr, "harness: cannot marshal case %d: %v\n", e.n, err)
		os.Exit(2)
	}
	e.w.Write(b)
	e.w.WriteByte('\n')
	e.n++
}

func (e *emitter) close() { e.w.Flush() }
