package main

import (
	"bytes"
	"context"
	"fmt"
	"net/http"
	"runtime"
	"sort"
	"strconv"
	"strings"
	"sync"
	"time"

	"github.com/go-fed/activity/pub"
)

// C08: several requests handled concurrently by one Actor, under a scheduler that decides, at every call the
// library makes to the application (Database, Transport, callbacks), which request moves next.  Lock(k) blocks while
// another request holds k (the application's side of the contract: mutual exclusion per id).

func goid() int {
	var buf [64]byte
	n := runtime.Stack(buf[:], false)
	f := strings.Fields(string(buf[:n]))
	id, _ := strconv.Atoi(f[1])
	return id
}

type scheduler struct {
	mu       sync.Mutex
	cond     *sync.Cond
	r        *rng
	workers  map[int]int    // goroutine id -> worker index
	parked   map[int]bool   // worker is waiting to be chosen
	wantLock map[int]string // worker is waiting for this key
	heldBy   map[string]int // key -> worker
	done     map[int]bool
	n        int
	turn     int // worker allowed to run (-1: none)
	deadlock bool
	steps    int
	schedule []int
	broken   bool // locks no longer enforced (after a deadlock was recorded)
	leaked   []string
}

func newScheduler(r *rng, n int) *scheduler {
	s := &scheduler{r: r, workers: map[int]int{}, parked: map[int]bool{}, wantLock: map[int]string{}, heldBy: map[string]int{}, done: map[int]bool{}, n: n, turn: -1}
	s.cond = sync.NewCond(&s.mu)
	return s
}

func (s *scheduler) me() (int, bool) {
	w, ok := s.workers[goid()]
	return w, ok
}

// pick the next worker when everybody is parked or done
func (s *scheduler) pickLocked() {
	if s.turn != -1 {
		return
	}
	active := 0
	var runnable []int
	for w := 0; w < s.n; w++ {
		if s.done[w] {
			continue
		}
		active++
		if !s.parked[w] {
			return // somebody is still running towards its next call
		}
		if k, waits := s.wantLock[w]; waits && !s.broken {
			if h, held := s.heldBy[k]; held && h != w {
				continue
			}
		}
		runnable = append(runnable, w)
	}
	if active == 0 {
		return
	}
	if len(runnable) == 0 {
		// every unfinished request waits for a lock another one holds
		s.deadlock = true
		s.broken = true
		for w := 0; w < s.n; w++ {
			if !s.done[w] {
				runnable = append(runnable, w)
			}
		}
	}
	sort.Ints(runnable)
	w := runnable[s.r.intn(len(runnable))]
	s.turn = w
	s.schedule = append(s.schedule, w)
	s.steps++
	s.cond.Broadcast()
}

func (s *scheduler) park(w int) {
	s.parked[w] = true
	if s.turn == w {
		s.turn = -1
	}
	s.pickLocked()
	for s.turn != w {
		s.cond.Wait()
	}
	s.parked[w] = false
}

func (s *scheduler) yield(name string) {
	s.mu.Lock()
	defer s.mu.Unlock()
	w, ok := s.me()
	if !ok {
		return
	}
	s.park(w)
}

func (s *scheduler) acquire(k string) {
	s.mu.Lock()
	defer s.mu.Unlock()
	w, ok := s.me()
	if !ok {
		return
	}
	for {
		h, held := s.heldBy[k]
		if !held || h == w || s.broken {
			s.heldBy[k] = w
			delete(s.wantLock, w)
			return
		}
		s.wantLock[w] = k
		s.park(w)
	}
}

func (s *scheduler) release(k string) {
	s.mu.Lock()
	defer s.mu.Unlock()
	w, ok := s.me()
	if !ok {
		return
	}
	// the application's lock is an ordinary mutex: Unlock releases it whoever calls (a request that unlocks an id it
	// never locked — after a failed Lock, say — lets the next request in)
	_ = w
	delete(s.heldBy, k)
}

func (s *scheduler) finish(w int) {
	s.mu.Lock()
	defer s.mu.Unlock()
	s.done[w] = true
	if s.turn == w {
		s.turn = -1
	}
	// a request that ends while holding locks would block the others forever: release (and let C09 report it)
	// a lock a finished request still holds stays held: whoever needs it next does not complete
	for k, h := range s.heldBy {
		if h == w {
			s.leaked = append(s.leaked, k)
		}
	}
	s.pickLocked()
}

// the ids in every collection the property names, as sorted lists
func collectionsOf(w *world) J {
	out := J{}
	ids := func(doc J) []interface{} {
		var xs []string
		for _, key := range []string{"items", "orderedItems"} {
			for _, e := range jlist(doc[key]) {
				switch v := e.(type) {
				case string:
					xs = append(xs, v)
				case map[string]interface{}:
					xs = append(xs, fmt.Sprint(v["id"]))
				}
			}
		}
		sort.Strings(xs)
		var o []interface{}
		for _, x := range xs {
			o = append(o, x)
		}
		return orEmpty(o)
	}
	w.mu.Lock()
	defer w.mu.Unlock()
	for k, d := range w.inboxes {
		out["inbox "+k] = ids(d)
	}
	for k, d := range w.outboxes {
		out["outbox "+k] = ids(d)
	}
	for k, d := range w.followers {
		out["followers "+k] = ids(d)
	}
	for k, d := range w.following {
		out["following "+k] = ids(d)
	}
	for k, d := range w.liked {
		out["liked "+k] = ids(d)
	}
	for k, d := range w.store {
		if _, ok := d["items"]; ok {
			out["stored "+k] = ids(d)
		} else if _, ok := d["orderedItems"]; ok {
			out["stored "+k] = ids(d)
		}
		for _, p := range []string{"likes", "shares"} {
			if c, ok := d[p].(map[string]interface{}); ok {
				out[p+" "+k] = ids(c)
			}
		}
	}
	return out
}

func countsOf(w *world) (cbs J, fwds J) {
	cbs, fwds = J{}, J{}
	w.mu.Lock()
	defer w.mu.Unlock()
	for _, e := range w.trace {
		switch e.C {
		case "appCb", "otherCb", "fedDefault", "socialDefault":
			if len(e.A) > 0 {
				last := jmap(e.A[len(e.A)-1])
				k := e.C + " " + fmt.Sprint(last["id"])
				cbs[k] = intOf(cbs[k], 0) + 1
			}
		case "batchDeliver":
			if len(e.A) > 0 {
				k := fmt.Sprint(jmap(e.A[0])["id"])
				fwds[k] = intOf(fwds[k], 0) + 1
			}
		}
	}
	return
}

func runOneRequest(w *world, actor pub.FederatingActor, step J) error {
	entry, _ := step["entry"].(string)
	host, _ := step["host"].(string)
	path, _ := step["path"].(string)
	raw, _ := bodyBytes(step["body"])
	method := "POST"
	req, _ := http.NewRequest(method, "http://"+host+path, bytes.NewReader(raw))
	req.Host = host
	req.Header.Set("Content-Type", "application/activity+json")
	cw := &countingWriter{w: w, header: http.Header{}}
	var err error
	switch entry {
	case "postInbox":
		_, err = actor.PostInbox(context.Background(), cw, req)
	case "postOutbox":
		_, err = actor.PostOutbox(context.Background(), cw, req)
	}
	return err
}

func runConcurrent(in J) interface{} {
	spec := jmap(in["world"])
	steps := jlist(in["requests"])
	mkActor := func(w *world) pub.FederatingActor {
		return pub.NewActor(fakeCommon{w}, fakeSocial{w}, fakeFed{fakeCommon{w}}, fakeDB{w}, fakeClock{w})
	}
	// 1. one after another
	ws := newWorld(jmap(deepCopy(spec)), 0)
	as := mkActor(ws)
	var seqErrs []interface{}
	lockFaultsOf := func() map[int]string {
		m := map[int]string{}
		for i, st := range steps {
			if k, ok := jmap(st)["lockFault"].(string); ok {
				m[i] = k
			}
		}
		if len(m) == 0 {
			return nil
		}
		return m
	}
	ws.lockFaults = lockFaultsOf()
	for i, st := range steps {
		ws.curReq = i
		seqErrs = append(seqErrs, errClassPub(runOneRequest(ws, as, jmap(st))))
	}
	seqCols := collectionsOf(ws)
	seqCb, seqFw := countsOf(ws)
	// 2. concurrently, under the scheduler
	wc := newWorld(jmap(deepCopy(spec)), 0)
	sch := newScheduler(newRng(uint64(intOf(in["schedSeed"], 1))), len(steps))
	wc.sched = sch
	wc.lockFaults = lockFaultsOf()
	ac := mkActor(wc)
	conErrs := make([]interface{}, len(steps))
	var wg sync.WaitGroup
	ready := make(chan struct{})
	for i, st := range steps {
		wg.Add(1)
		go func(i int, st J) {
			defer wg.Done()
			sch.mu.Lock()
			sch.workers[goid()] = i
			sch.mu.Unlock()
			<-ready
			defer sch.finish(i)
			defer func() {
				if r := recover(); r != nil {
					conErrs[i] = "panic: " + fmt.Sprint(r)
				}
			}()
			conErrs[i] = errClassPub(runOneRequest(wc, ac, st))
		}(i, jmap(st))
	}
	// wait until every worker is registered
	for {
		sch.mu.Lock()
		n := len(sch.workers)
		sch.mu.Unlock()
		if n == len(steps) {
			break
		}
		time.Sleep(time.Millisecond)
	}
	close(ready)
	doneCh := make(chan struct{})
	go func() { wg.Wait(); close(doneCh) }()
	hang := !waitDone(doneCh, 10*time.Second)
	obs := J{"seq": seqCols, "seqErrs": seqErrs, "seqCb": seqCb, "seqFwd": seqFw, "hang": hang}
	if !hang {
		conCb, conFw := countsOf(wc)
		obs["con"] = collectionsOf(wc)
		obs["conErrs"] = conErrs
		obs["conCb"], obs["conFwd"] = conCb, conFw
	}
	sch.mu.Lock()
	obs["deadlock"] = sch.deadlock
	sort.Strings(sch.leaked)
	obs["leaked"] = orEmpty(func() []interface{} {
		var o []interface{}
		for _, k := range sch.leaked {
			o = append(o, k)
		}
		return o
	}())
	obs["steps"] = sch.steps
	sch.mu.Unlock()
	return obs
}

func genConcurrent(r *rng, thorough bool, args []string, yield func(in J)) {
	n := 120
	if len(args) >= 1 {
		n, _ = strconv.Atoi(args[0])
	}
	scheds := 4
	if thorough {
		n *= 4
		scheds = 12
	}
	g := &sgen{r}
	for i := 0; i < n; i++ {
		w := g.baseWorld()
		w["fedCallbacks"] = J{"wrapped": asList([]interface{}{"Like", "Announce", "Follow", "Add", "Create"}), "other": []interface{}{}, "onFollow": 1.0}
		w["socialCallbacks"] = J{"wrapped": []interface{}{}, "other": []interface{}{}, "onFollow": 0.0}
		w["newIds"] = []interface{}{}
		k := 2 + r.intn(2)
		var reqs []interface{}
		mk := func(entry, path string, a J) J {
			return step(entry, "POST", "application/activity+json", path, a)
		}
		switch i % 9 {
		case 8: // a forwarded activity (two owned collections, the application keeps only the second — filtering the
			// slice it was given in place) next to requests that need those collections afterwards
			w["filter"] = []interface{}{local("/col/2")}
			reqs = append(reqs, mk("postInbox", "/users/alice/inbox", J{"type": "Listen", "id": remote("/activities/fw"), "actor": bob,
				"object": local("/notes/1"), "to": []interface{}{local("/col/1"), local("/col/2")}}))
			for j := 0; j < k-1; j++ {
				reqs = append(reqs, mk("postInbox", "/users/alice/inbox", J{"type": "Add", "id": remote(fmt.Sprintf("/activities/afw%d", j)), "actor": bob,
					"object": remote(fmt.Sprintf("/notes/addfw%d", j)), "target": local("/col/1"), "to": alice}))
			}
		case 7: // a rejected request among well-formed ones on the same actor: it leaves no lock behind
			bad := []J{
				{"type": "Like", "actor": alice, "object": J{"type": "Note", "content": "no id"}, "to": bob},
				{"type": "Like", "actor": alice, "object": []interface{}{remote("/notes/o9"), J{"type": "Note", "content": "no id"}}, "to": bob},
				{"type": "Add", "actor": alice, "object": remote("/notes/8"), "target": local("/notes/1")},
				{"type": "Update", "actor": alice, "object": local("/notes/1")},
				{"type": "Delete", "actor": alice, "object": J{"type": "Note", "content": "no id"}},
			}[(i/8)%5]
			at := r.intn(k)
			for j := 0; j < k+1; j++ {
				if j == at {
					reqs = append(reqs, mk("postOutbox", "/users/alice/outbox", bad))
					continue
				}
				reqs = append(reqs, mk("postOutbox", "/users/alice/outbox", J{"type": "Like", "actor": alice, "object": remote(fmt.Sprintf("/notes/o%d", j)), "to": bob}))
			}
		case 0: // duplicate POSTs of one activity to one inbox
			a := J{"type": "Like", "id": remote("/activities/dup"), "actor": bob, "object": local("/notes/1"), "to": alice}
			for j := 0; j < k; j++ {
				reqs = append(reqs, mk("postInbox", "/users/alice/inbox", a))
			}
		case 1: // different activities to one inbox
			for j := 0; j < k; j++ {
				reqs = append(reqs, mk("postInbox", "/users/alice/inbox", J{"type": "Listen", "id": remote(fmt.Sprintf("/activities/d%d", j)), "actor": bob, "object": remote("/notes/8"), "to": alice}))
			}
		case 2: // Likes / Announces of one owned object
			for j := 0; j < k; j++ {
				reqs = append(reqs, mk("postInbox", "/users/alice/inbox", J{"type": g.r.pick([]string{"Like", "Like", "Announce"}), "id": remote(fmt.Sprintf("/activities/l%d", j)), "actor": bob, "object": local("/notes/2"), "to": alice}))
			}
		case 3: // Follows of one actor, accepted automatically
			for j := 0; j < k; j++ {
				who := remote(fmt.Sprintf("/users/f%d", j))
				jmap(w["remote"])[who] = actorDoc(who, who+"/inbox")
				reqs = append(reqs, mk("postInbox", "/users/alice/inbox", J{"type": "Follow", "id": remote(fmt.Sprintf("/activities/f%d", j)), "actor": who, "object": alice, "to": alice}))
			}
		case 4: // Adds to owned collections (one target, or several targets named in different orders)
			targets := []string{local("/col/1"), local("/col/2"), local("/ocol/1")}
			for j := 0; j < k; j++ {
				var tg interface{} = local("/col/1")
				if i%12 >= 6 {
					a, b := targets[j%3], targets[(j+1)%3]
					if j%2 == 1 {
						a, b = targets[(j)%3], targets[(j+2)%3]
					}
					tg = asList([]interface{}{a, b})
				}
				reqs = append(reqs, mk("postInbox", "/users/alice/inbox", J{"type": "Add", "id": remote(fmt.Sprintf("/activities/a%d", j)), "actor": bob, "object": remote(fmt.Sprintf("/notes/add%d", j)), "target": tg, "to": alice}))
			}
		case 6: // three requests on one inbox, the middle one's Lock of the inbox fails (and takes nothing)
			for j := 0; j < 3; j++ {
				id := remote("/activities/dupf")
				if i%14 >= 7 {
					id = remote(fmt.Sprintf("/activities/lf%d", j))
				}
				st := mk("postInbox", "/users/alice/inbox", J{"type": "Like", "id": id, "actor": bob, "object": local("/notes/1"), "to": alice})
				if j == 1 {
					st["lockFault"] = aliceInbox
				}
				reqs = append(reqs, st)
			}
		default: // client POSTs to one outbox
			for j := 0; j < k; j++ {
				reqs = append(reqs, mk("postOutbox", "/users/alice/outbox", J{"type": "Like", "actor": alice, "object": remote(fmt.Sprintf("/notes/o%d", j)), "to": bob}))
			}
		}
		for s := 0; s < scheds; s++ {
			yield(J{"world": w, "requests": reqs, "schedSeed": 1 + r.intn(1000000), "family": i % 9})
		}
	}
}

func init() {
	runners["c08"] = &runner{prop: "C08", gen: genConcurrent, run: runConcurrent}
}
