package main

import (
	"context"

	"github.com/go-fed/activity/pub"
	"github.com/go-fed/activity/streams/vocab"
)

func hasStr(x interface{}, s string) bool {
	for _, e := range jstrs(x) {
		if e == s {
			return true
		}
	}
	return false
}

func buildOther(w *world, fed bool, cfg J) []interface{} {
	var other []interface{}
	for idx, n := range jstrs(cfg["other"]) {
		i := idx
		if m := cbByName(n); m != nil {
			other = append(other, m.MkAny(func(v vocab.Type) error { return w.otherCb(fed, i, v) }))
		} else {
			other = append(other, 42) // not a legal callback
		}
	}
	return other
}

func buildFedCallbacks(w *world, cfg J) (pub.FederatingWrappedCallbacks, []interface{}) {
	var wr pub.FederatingWrappedCallbacks
	wr.OnFollow = pub.OnFollowBehavior(intOf(cfg["onFollow"], 0))
	wrp := cfg["wrapped"]
	if hasStr(wrp, "Create") {
		wr.Create = func(c context.Context, a vocab.ActivityStreamsCreate) error { return w.appCb(true, "Create", a) }
	}
	if hasStr(wrp, "Update") {
		wr.Update = func(c context.Context, a vocab.ActivityStreamsUpdate) error { return w.appCb(true, "Update", a) }
	}
	if hasStr(wrp, "Delete") {
		wr.Delete = func(c context.Context, a vocab.ActivityStreamsDelete) error { return w.appCb(true, "Delete", a) }
	}
	if hasStr(wrp, "Follow") {
		wr.Follow = func(c context.Context, a vocab.ActivityStreamsFollow) error { return w.appCb(true, "Follow", a) }
	}
	if hasStr(wrp, "Accept") {
		wr.Accept = func(c context.Context, a vocab.ActivityStreamsAccept) error { return w.appCb(true, "Accept", a) }
	}
	if hasStr(wrp, "Reject") {
		wr.Reject = func(c context.Context, a vocab.ActivityStreamsReject) error { return w.appCb(true, "Reject", a) }
	}
	if hasStr(wrp, "Add") {
		wr.Add = func(c context.Context, a vocab.ActivityStreamsAdd) error { return w.appCb(true, "Add", a) }
	}
	if hasStr(wrp, "Remove") {
		wr.Remove = func(c context.Context, a vocab.ActivityStreamsRemove) error { return w.appCb(true, "Remove", a) }
	}
	if hasStr(wrp, "Like") {
		wr.Like = func(c context.Context, a vocab.ActivityStreamsLike) error { return w.appCb(true, "Like", a) }
	}
	if hasStr(wrp, "Announce") {
		wr.Announce = func(c context.Context, a vocab.ActivityStreamsAnnounce) error { return w.appCb(true, "Announce", a) }
	}
	if hasStr(wrp, "Undo") {
		wr.Undo = func(c context.Context, a vocab.ActivityStreamsUndo) error { return w.appCb(true, "Undo", a) }
	}
	if hasStr(wrp, "Block") {
		wr.Block = func(c context.Context, a vocab.ActivityStreamsBlock) error { return w.appCb(true, "Block", a) }
	}
	return wr, buildOther(w, true, cfg)
}

func buildSocialCallbacks(w *world, cfg J) (pub.SocialWrappedCallbacks, []interface{}) {
	var wr pub.SocialWrappedCallbacks
	wrp := cfg["wrapped"]
	if hasStr(wrp, "Create") {
		wr.Create = func(c context.Context, a vocab.ActivityStreamsCreate) error { return w.appCb(false, "Create", a) }
	}
	if hasStr(wrp, "Update") {
		wr.Update = func(c context.Context, a vocab.ActivityStreamsUpdate) error { return w.appCb(false, "Update", a) }
	}
	if hasStr(wrp, "Delete") {
		wr.Delete = func(c context.Context, a vocab.ActivityStreamsDelete) error { return w.appCb(false, "Delete", a) }
	}
	if hasStr(wrp, "Follow") {
		wr.Follow = func(c context.Context, a vocab.ActivityStreamsFollow) error { return w.appCb(false, "Follow", a) }
	}
	if hasStr(wrp, "Add") {
		wr.Add = func(c context.Context, a vocab.ActivityStreamsAdd) error { return w.appCb(false, "Add", a) }
	}
	if hasStr(wrp, "Remove") {
		wr.Remove = func(c context.Context, a vocab.ActivityStreamsRemove) error { return w.appCb(false, "Remove", a) }
	}
	if hasStr(wrp, "Like") {
		wr.Like = func(c context.Context, a vocab.ActivityStreamsLike) error { return w.appCb(false, "Like", a) }
	}
	if hasStr(wrp, "Undo") {
		wr.Undo = func(c context.Context, a vocab.ActivityStreamsUndo) error { return w.appCb(false, "Undo", a) }
	}
	if hasStr(wrp, "Block") {
		wr.Block = func(c context.Context, a vocab.ActivityStreamsBlock) error { return w.appCb(false, "Block", a) }
	}
	return wr, buildOther(w, false, cfg)
}

func newBundledTransport(w *world) pub.Transport { return fakeTransport{w} }
