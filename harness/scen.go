package main

import "fmt"

// Scenario generators for pub. Everything derives from one rng.

const (
	hostA = "a.example" // this server
	hostB = "b.example"
	hostC = "c.example"
)

func local(p string) string  { return "https://" + hostA + p }
func remote(p string) string { return "https://" + hostB + p }
func other(p string) string  { return "https://" + hostC + p }

var (
	alice          = local("/users/alice")
	aliceInbox     = local("/users/alice/inbox")
	aliceOutbox    = local("/users/alice/outbox")
	aliceFollowers = local("/users/alice/followers")
	aliceFollowing = local("/users/alice/following")
	aliceLiked     = local("/users/alice/liked")
	dave           = local("/users/dave")
	daveInbox      = local("/users/dave/inbox")
	bob            = remote("/users/bob")
	bobInbox       = remote("/users/bob/inbox")
	carol          = other("/users/carol")
	carolInbox     = other("/users/carol/inbox")
	publicIRI      = "https://www.w3.org/ns/activitystreams#Public"
)

type sgen struct{ r *rng }

func actorDoc(id, inbox string) J {
	return J{"type": "Person", "id": id, "inbox": inbox, "outbox": id + "/outbox", "name": "n"}
}

// a world with one local actor (alice), a second local one (dave), two remote actors and a few owned things
// the application's stored inboxes: dave's always; sometimes also the sender's own (alice)
func (g *sgen) storedInboxes() J {
	m := J{dave: daveInbox}
	if g.r.chance(25) {
		m[alice] = aliceInbox
	}
	return m
}

func (g *sgen) baseWorld() J {
	w := J{
		"owned": []interface{}{alice, dave, aliceInbox, aliceOutbox, aliceFollowers, aliceFollowing, aliceLiked,
			local("/notes/1"), local("/notes/2"), local("/col/1"), local("/col/2"), local("/ocol/1"), local("/activities/f1")},
		"store": J{
			alice:                   actorDoc(alice, aliceInbox),
			dave:                    actorDoc(dave, daveInbox),
			local("/notes/1"):       J{"type": "Note", "id": local("/notes/1"), "content": "one", "attributedTo": alice},
			local("/notes/2"):       J{"type": "Note", "id": local("/notes/2"), "content": "two", "likes": J{"type": "OrderedCollection", "id": local("/notes/2/likes"), "orderedItems": remote("/likes/0")}, "shares": J{"type": "Collection", "id": local("/notes/2/shares")}},
			local("/col/1"):         J{"type": "Collection", "id": local("/col/1"), "items": []interface{}{bob, carol}},
			local("/col/2"):         J{"type": "Collection", "id": local("/col/2"), "items": dave},
			local("/ocol/1"):        J{"type": "OrderedCollection", "id": local("/ocol/1"), "orderedItems": []interface{}{carol, bob, carol}},
			local("/activities/f1"): J{"type": "Follow", "id": local("/activities/f1"), "actor": alice, "object": bob},
			aliceFollowers:          J{"type": "Collection", "id": aliceFollowers, "items": []interface{}{carol}},
		},
		"inboxFor":       g.storedInboxes(),
		"actorForOutbox": J{aliceOutbox: alice, dave + "/outbox": dave},
		"actorForInbox":  J{aliceInbox: alice, daveInbox: dave},
		"outboxForInbox": J{aliceInbox: aliceOutbox, daveInbox: dave + "/outbox"},
		"inboxes":        J{aliceInbox: J{"type": "OrderedCollectionPage", "id": aliceInbox, "orderedItems": []interface{}{remote("/old/1")}}},
		"outboxes":       J{aliceOutbox: J{"type": "OrderedCollectionPage", "id": aliceOutbox}},
		"followers":      J{alice: J{"type": "Collection", "id": aliceFollowers, "items": []interface{}{carol}}},
		"following":      J{alice: J{"type": "Collection", "id": aliceFollowing}},
		"liked":          J{alice: J{"type": "Collection", "id": aliceLiked, "items": remote("/notes/0")}},
		"remote": J{
			bob:                      actorDoc(bob, bobInbox),
			carol:                    actorDoc(carol, carolInbox),
			remote("/notes/9"):       J{"type": "Note", "id": remote("/notes/9"), "content": "nine", "inReplyTo": local("/notes/1")},
			remote("/notes/8"):       J{"type": "Note", "id": remote("/notes/8"), "content": "eight"},
			remote("/col/r"):         J{"type": "Collection", "id": remote("/col/r"), "items": []interface{}{carol, remote("/col/r2")}},
			remote("/col/r2"):        J{"type": "OrderedCollection", "id": remote("/col/r2"), "orderedItems": []interface{}{bob, remote("/col/r")}},
			remote("/garbage"):       J{"__raw": "<html>not json</html>"},
			remote("/unknown"):       J{"type": "Gizmo", "id": remote("/unknown")},
			remote("/notype"):        J{"error": "Record not found"},
			remote("/activities/f2"): J{"type": "Follow", "id": local("/activities/f1"), "actor": alice, "object": bob},
			remote("/activities/l1"): J{"type": "Like", "id": remote("/activities/l1"), "actor": bob, "object": local("/notes/1")},
		},
		"maxFwdDepth":      3.0,
		"maxDeliveryDepth": 3.0,
		"now":              1.6e9 + float64(g.r.intn(100000000)),
		"newIds":           []interface{}{local("/activities/n1"), local("/objects/n2"), local("/objects/n3"), local("/objects/n4"), local("/activities/n5"), local("/objects/n6")},
	}
	// now and then every Unlock reports an error (after releasing the lock)
	if int64(w["now"].(float64))%16 == 7 {
		w["unlockFails"] = true
	}
	// now and then the owned collections are stored as pages (which extend the collection types)
	if int64(w["now"].(float64))%5 == 0 {
		st := jmap(w["store"])
		jmap(st[local("/col/2")])["type"] = "CollectionPage"
		jmap(st[local("/ocol/1")])["type"] = "OrderedCollectionPage"
		n2 := jmap(st[local("/notes/2")])
		jmap(n2["likes"])["type"] = "OrderedCollectionPage"
		jmap(n2["shares"])["type"] = "CollectionPage"
	}
	return w
}

// an element given either by IRI or embedded
func (g *sgen) ref(id string, ty string, embed bool) interface{} {
	if !embed {
		return id
	}
	return J{"type": ty, "id": id}
}

func (g *sgen) pickN(xs []string, n int) []string {
	var out []string
	for i := 0; i < n; i++ {
		out = append(out, xs[g.r.intn(len(xs))])
	}
	return out
}

func asList(xs []interface{}) interface{} {
	if len(xs) == 1 {
		return xs[0]
	}
	return xs
}

// recipients: a random mix over the five addressing properties
func (g *sgen) address(a J, pool []string, density int) {
	for _, p := range []string{"to", "bto", "cc", "bcc", "audience"} {
		if g.r.chance(density) {
			n := 1 + g.r.intn(3)
			var xs []interface{}
			for i := 0; i < n; i++ {
				id := pool[g.r.intn(len(pool))]
				if g.r.chance(15) && id != publicIRI {
					xs = append(xs, J{"type": "Person", "id": id})
				} else {
					xs = append(xs, id)
				}
			}
			a[p] = asList(xs)
		}
	}
}

var inboxTypes = []string{"Create", "Update", "Delete", "Follow", "Accept", "Reject", "Add", "Remove", "Like", "Announce", "Undo", "Block", "Offer", "Arrive", "Listen"}

// an activity arriving at alice's inbox from bob
func (g *sgen) inboxActivity(ty string, world J) J {
	id := remote(fmt.Sprintf("/activities/%d", g.r.intn(1000)))
	a := J{"type": ty, "id": id}
	// actors: 1..2, IRI or embedded
	var actors []interface{}
	na := 1
	if g.r.chance(20) {
		na = 2
	}
	for i := 0; i < na; i++ {
		who := bob
		if i == 1 {
			who = remote("/users/bea")
		}
		actors = append(actors, g.ref(who, "Person", g.r.chance(25)))
	}
	a["actor"] = asList(actors)
	if g.r.chance(4) {
		a["actor"] = []interface{}{} // present but empty: nobody to ask the block check about
	}
	no := 1 + g.r.intn(3)
	if g.r.chance(8) {
		no = 0
	}
	if ty == "Arrive" || ty == "Travel" || ty == "Question" {
		// intransitive: activities in the vocabulary without an object property (a member of that name is unknown to them)
		if g.r.chance(80) {
			no = 0
		}
	}
	var objs []interface{}
	switch ty {
	case "Create":
		for i := 0; i < no; i++ {
			oid := remote(fmt.Sprintf("/notes/%d", 8+g.r.intn(2)))
			if g.r.chance(15) {
				// an IRI whose document is of an unknown type, has no type at all, is no JSON, or cannot be fetched
				oid = g.r.pick([]string{remote("/unknown"), remote("/notype"), remote("/garbage"), remote("/gone")})
			}
			if g.r.chance(60) {
				objs = append(objs, J{"type": "Note", "id": remote(fmt.Sprintf("/notes/c%d", i)), "content": "hello"})
			} else {
				objs = append(objs, oid)
			}
		}
	case "Update", "Delete":
		for i := 0; i < no; i++ {
			host := remote
			if g.r.chance(20) {
				host = other
			}
			oid := host(fmt.Sprintf("/notes/u%d", i))
			if ty == "Update" || g.r.chance(50) {
				objs = append(objs, J{"type": "Note", "id": oid, "content": "upd"})
			} else {
				objs = append(objs, oid)
			}
		}
	case "Follow":
		targets := []string{alice, dave, carol}
		for i := 0; i < no; i++ {
			objs = append(objs, g.ref(targets[g.r.intn(len(targets))], "Person", g.r.chance(25)))
		}
	case "Accept", "Reject":
		for i := 0; i < no; i++ {
			switch g.r.intn(4) {
			case 0:
				objs = append(objs, J{"type": "Follow", "id": local("/activities/f1"), "actor": alice, "object": bob})
			case 1:
				if g.r.chance(25) {
					objs = append(objs, g.r.pick([]string{remote("/unknown"), remote("/notype"), remote("/garbage")}))
				} else {
					objs = append(objs, remote("/activities/f2"))
				}
			case 2:
				objs = append(objs, J{"type": "Follow", "id": remote("/activities/fx"), "actor": carol, "object": bob})
			default:
				objs = append(objs, J{"type": "Note", "id": remote("/notes/x"), "content": "x"})
			}
		}
	case "Add", "Remove":
		for i := 0; i < no; i++ {
			objs = append(objs, g.ref(g.r.pick([]string{remote("/notes/8"), carol, bob, remote("/notes/9")}), "Note", g.r.chance(30)))
		}
		nt := 1 + g.r.intn(3)
		if g.r.chance(8) {
			nt = 0
		}
		var ts []interface{}
		for i := 0; i < nt; i++ {
			t := g.r.pick([]string{local("/col/1"), local("/col/2"), local("/ocol/1"), remote("/col/r"), local("/notes/1")})
			ts = append(ts, g.ref(t, "Collection", g.r.chance(20)))
		}
		if nt > 0 || g.r.bool() {
			a["target"] = asList(ts)
			if nt == 0 {
				a["target"] = []interface{}{}
			}
		}
	case "Like", "Announce":
		for i := 0; i < no; i++ {
			objs = append(objs, g.ref(g.r.pick([]string{local("/notes/1"), local("/notes/2"), remote("/notes/8")}), "Note", g.r.chance(30)))
		}
	case "Undo":
		for i := 0; i < no; i++ {
			objs = append(objs, g.ref(remote("/activities/l1"), "Like", g.r.chance(40)))
		}
	default:
		for i := 0; i < no; i++ {
			objs = append(objs, g.ref(g.r.pick([]string{local("/notes/1"), remote("/notes/8")}), "Note", g.r.chance(40)))
		}
	}
	if ty != "Arrive" {
		if no > 0 {
			a["object"] = asList(objs)
		} else if g.r.bool() {
			a["object"] = []interface{}{}
		}
	}
	g.address(a, []string{alice, local("/col/1"), local("/col/2"), local("/ocol/1"), carol, publicIRI, remote("/col/r")}, 35)
	if g.r.chance(30) {
		a["inReplyTo"] = g.r.pick([]string{local("/notes/1"), remote("/notes/9"), remote("/notes/8")})
	}
	if g.r.chance(15) {
		a["tag"] = J{"type": "Mention", "href": g.r.pick([]string{alice, bob})}
	}
	return a
}

var outboxTypes = []string{"Create", "Update", "Delete", "Follow", "Add", "Remove", "Like", "Undo", "Block", "Announce", "Accept", "Note", "Article", "Listen", "Arrive", "Travel", "Question", "Push"}

// something a client posts to alice's outbox
func (g *sgen) outboxValue(ty string, world J) J {
	pool := []string{bob, carol, dave, publicIRI, remote("/col/r"), alice, remote("/garbage"), remote("/unknown"), remote("/gone")}
	if ty == "Note" || ty == "Article" {
		v := J{"type": ty, "content": "a bare object"}
		if g.r.chance(40) {
			v["published"] = "2020-01-02T03:04:05Z"
		}
		if g.r.chance(40) {
			v["attributedTo"] = alice
		}
		g.address(v, pool, 45)
		return v
	}
	a := J{"type": ty}
	if g.r.chance(85) {
		a["actor"] = g.ref(alice, "Person", g.r.chance(15))
	}
	no := 1 + g.r.intn(3)
	if g.r.chance(8) {
		no = 0
	}
	var objs []interface{}
	switch ty {
	case "Create":
		for i := 0; i < no; i++ {
			o := J{"type": "Note", "content": fmt.Sprintf("note %d", i)}
			if g.r.chance(50) {
				o["attributedTo"] = asList([]interface{}{g.r.pick([]string{alice, dave, carol})})
			}
			g.address(o, pool, 30)
			objs = append(objs, o)
		}
	case "Update":
		for i := 0; i < no; i++ {
			o := J{"type": "Note", "id": g.r.pick([]string{local("/notes/1"), local("/notes/2")}), "content": "edited"}
			if g.r.chance(40) {
				o["summary"] = "sum"
			}
			objs = append(objs, o)
		}
		if g.r.chance(30) {
			a["content"] = nil // an explicit null at the activity's top level
		}
	case "Delete":
		for i := 0; i < no; i++ {
			objs = append(objs, g.ref(g.r.pick([]string{local("/notes/1"), local("/notes/2")}), "Note", g.r.chance(30)))
		}
	case "Add", "Remove":
		for i := 0; i < no; i++ {
			objs = append(objs, g.ref(g.r.pick([]string{remote("/notes/8"), carol, bob}), "Note", g.r.chance(30)))
		}
		nt := 1 + g.r.intn(3)
		if g.r.chance(8) {
			nt = 0
		}
		var ts []interface{}
		for i := 0; i < nt; i++ {
			ts = append(ts, g.ref(g.r.pick([]string{local("/col/1"), local("/col/2"), local("/ocol/1"), remote("/col/r")}), "Collection", g.r.chance(20)))
		}
		if nt > 0 {
			a["target"] = asList(ts)
		}
	case "Undo":
		for i := 0; i < no; i++ {
			objs = append(objs, g.ref(remote("/activities/l1"), "Like", g.r.chance(40)))
		}
	default:
		for i := 0; i < no; i++ {
			objs = append(objs, g.ref(g.r.pick([]string{remote("/notes/8"), remote("/notes/9"), bob, local("/notes/1")}), "Note", g.r.chance(30)))
		}
		if no > 0 && g.r.chance(25) {
			// IRIs and embedded objects mixed, the embedded ones with hidden recipients of their own
			objs = nil
			for i := 0; i < 2+g.r.intn(2); i++ {
				if g.r.chance(45) {
					objs = append(objs, g.r.pick([]string{remote("/notes/8"), remote("/notes/9"), local("/notes/1")}))
					continue
				}
				o := J{"type": "Note", "id": remote(fmt.Sprintf("/notes/m%d", i)), "content": "mixed"}
				if g.r.chance(70) {
					o["bto"] = asList([]interface{}{bob})
				}
				if g.r.chance(70) {
					o["bcc"] = []interface{}{carol}
				}
				objs = append(objs, o)
			}
		}
	}
	if no > 0 {
		a["object"] = asList(objs)
	}
	g.address(a, pool, 45)
	return a
}

func (g *sgen) cbConfig(types []string) J {
	cfg := J{"onFollow": float64(g.r.intn(3))}
	var wrapped, otherL []interface{}
	for _, t := range types {
		if g.r.chance(30) {
			wrapped = append(wrapped, t)
		}
		if g.r.chance(10) {
			otherL = append(otherL, t)
		}
	}
	if g.r.chance(15) {
		otherL = append(otherL, "Listen")
	}
	if wrapped != nil {
		cfg["wrapped"] = wrapped
	}
	if otherL != nil {
		cfg["other"] = otherL
	}
	return cfg
}

var apHeaders = []string{
	"application/activity+json",
	"application/ld+json; profile=\"https://www.w3.org/ns/activitystreams\"",
	"application/ld+json;profile=https://www.w3.org/ns/activitystreams",
	"application/ld+json ; profile=\"https://www.w3.org/ns/activitystreams\"",
	"text/html, application/activity+json;q=0.9",
	// parameters the matching does not look at, well-formed or not
	"application/activity+json;q=",
	"application/activity+json; q= , text/html",
	"application/ld+json; profile=\"https://www.w3.org/ns/activitystreams\";q=",
	"application/activity+json;q=0",
	"application/activity+json;;",
}
var nonApHeaders = []string{"", "APPLICATION/ACTIVITY+JSON", "application/json;q=", "application/json", "application/ld+json", "text/html", "application/ld+json; profile=\"https://example.org/ns\"", "application/activity+xml"}

func (g *sgen) header(ap bool) string {
	if ap {
		return g.r.pick(apHeaders)
	}
	return g.r.pick(nonApHeaders)
}

// the elements of a value written by asList (scalar = one element)
func jlist(x interface{}) []interface{} {
	switch v := x.(type) {
	case nil:
		return nil
	case []interface{}:
		return append([]interface{}{}, v...)
	default:
		return []interface{}{v}
	}
}

func asListAlways(xs []interface{}) interface{} { return xs }
