#!/bin/sh
# run every kept seed against its property's quick check; writes seeded/RESULTS.txt
cd "$(dirname "$0")"
out=seeded/RESULTS.txt
: > $out
for d in seeded/C*-*; do
  id=$(basename $d); prop=${id%-*}
  [ -f $d/patch.diff ] || continue
  if ! grep -q "\"$prop\"" props.py; then echo "$id: property not registered" >> $out; continue; fi
  if ! git -C /repo apply --check /verif/$d/patch.diff 2>/dev/null; then echo "$id: patch does not apply to the current tree" >> $out; continue; fi
  r=$(./seedtest.sh /verif/$d/patch.diff $prop 2>&1 | grep -v KNOWN-FINDING | tr '\n' ' ')
  echo "$id: $r" >> $out
done
cat $out
