#!/usr/bin/env python3
"""./check <Cxx> [--tier quick|thorough] [--replay file]

One run = (1) rebuild translators + harness against /repo's working tree,
(2) regenerate AV/Gen/*.lean from the source, (3) lake build the property's
proof modules + axiom audit, (4) correspondence: harness | avdrv, (5) decide,
(6) write evidence/<Cxx>.json.  See DESIGN.md section 3.
"""
import sys, os, json, subprocess, time, hashlib, fcntl, re, shutil, tempfile

ROOT = os.path.dirname(os.path.abspath(__file__))
REPO = os.environ.get("VERIF_REPO", "/repo")
LEAN = os.path.join(ROOT, "lean")
GEN = os.path.join(ROOT, "gen")
BIN = os.path.join(ROOT, "bin")
EVID = os.path.join(ROOT, "evidence")
REPLAYS = os.path.join(EVID, "replays")
ALLOWED_AXIOMS = {"propext", "Classical.choice", "Quot.sound"}
FORBIDDEN = re.compile(r"\b(sorry|admit|native_decide|bv_decide|implemented_by|unsafe)\b|^\s*axiom\s|maxHeartbeats\s+0")

GOENV = dict(os.environ, GOFLAGS="-mod=mod", GOPROXY="off", GOSUMDB="off", GOTOOLCHAIN="local")

sys.path.insert(0, ROOT)
from props import PROPS  # per-property configuration


def log(msg):
    print("[check] " + msg, flush=True)


def run(cmd, cwd=None, env=None, timeout=None, input=None):
    p = subprocess.run(cmd, cwd=cwd, env=env, timeout=timeout, input=input,
                       stdout=subprocess.PIPE, stderr=subprocess.STDOUT, text=True)
    return p.returncode, p.stdout


class Lock:
    def __init__(self, name):
        os.makedirs(os.path.join(ROOT, "work"), exist_ok=True)
        self.path = os.path.join(ROOT, "work", name + ".lock")

    def __enter__(self):
        self.f = open(self.path, "w")
        fcntl.flock(self.f, fcntl.LOCK_EX)
        return self

    def __exit__(self, *a):
        fcntl.flock(self.f, fcntl.LOCK_UN)
        self.f.close()


def repo_rev():
    rc, out = run(["git", "-C", REPO, "rev-parse", "HEAD"])
    rev = out.strip() if rc == 0 else "unknown"
    rc, out = run(["git", "-C", REPO, "status", "--porcelain"])
    dirty = hashlib.sha1(out.encode()).hexdigest()[:8] if out.strip() else "clean"
    return rev[:12] + "+" + dirty


# ---------------------------------------------------------------- build steps

def build_tools(notes):
    """translators + harness, against the current /repo tree (hooks on)."""
    os.makedirs(BIN, exist_ok=True)
    os.makedirs(GEN, exist_ok=True)
    with Lock("go"):
        rc, out = run(["go", "build", "-o", os.path.join(BIN, "t2"), "."], cwd=os.path.join(ROOT, "translators/t2"), env=GOENV)
        if rc != 0:
            raise SystemExit("check: cannot build translator t2:\n" + out)
        rc, out = run(["go", "build", "-o", os.path.join(BIN, "t3"), "."], cwd=os.path.join(ROOT, "translators/t3"), env=GOENV) \
            if os.path.isdir(os.path.join(ROOT, "translators/t3")) else (0, "")
        if rc != 0:
            raise SystemExit("check: cannot build translator t3:\n" + out)
        # T1, T2
        rc, out = run([sys.executable, os.path.join(ROOT, "translators/t1_ontology.py"), REPO, os.path.join(GEN, "ontology.json.tmp")])
        if rc != 0:
            notes["translator_errors"].append("T1: " + out.strip())
        else:
            os.replace(os.path.join(GEN, "ontology.json.tmp"), os.path.join(GEN, "ontology.json"))
        rc, out = run([os.path.join(BIN, "t2"), REPO])
        if rc != 0:
            notes["translator_errors"].append("T2 failed: " + out[-2000:])
        else:
            open(os.path.join(GEN, "impl.json.tmp"), "w").write(out)
            os.replace(os.path.join(GEN, "impl.json.tmp"), os.path.join(GEN, "impl.json"))
            errs = json.loads(out).get("errors", [])
            for e in errs:
                notes["translator_errors"].append("T2-SHAPE: " + e.replace(REPO + "/", ""))
        # shape expectations recorded for the pinned templates
        exp_path = os.path.join(ROOT, "translators/t2_expect.json")
        if os.path.exists(exp_path) and os.path.exists(os.path.join(GEN, "impl.json")):
            exp = json.load(open(exp_path))
            impl = json.load(open(os.path.join(GEN, "impl.json")))
            for p in impl["props"]:
                for k, h in p["shapes"].items():
                    if h not in exp["shapes"].get(k, []):
                        notes["translator_errors"].append(f"T2-SHAPE: {p['dir']}: method {k} does not have the reference template shape ({h})")
        rc, out = run([sys.executable, os.path.join(ROOT, "translators/gen_harness.py"), GEN, os.path.join(ROOT, "harness")])
        if rc != 0:
            notes["translator_errors"].append("gen_harness: " + out.strip())
        shutil.copy(os.path.join(REPO, "go.sum"), os.path.join(ROOT, "harness/go.sum"))
        # the harness module is replaced onto the tree under test (VERIF_REPO: an isolated copy for background sweeps)
        gm = os.path.join(ROOT, "harness/go.mod")
        want = "replace github.com/go-fed/activity => " + REPO
        txt = open(gm).read()
        cur = [l for l in txt.splitlines() if l.startswith("replace github.com/go-fed/activity =>")]
        if cur and cur[0] != want:
            open(gm, "w").write(txt.replace(cur[0], want))
        rc, out = run(["go", "build", "-tags", "verif", "-o", os.path.join(BIN, "harness"), "."], cwd=os.path.join(ROOT, "harness"), env=GOENV)
        if rc != 0:
            notes["harness_build_error"] = out[-4000:]


def regenerate(notes):
    with Lock("lake"):
        rc, out = run([sys.executable, os.path.join(ROOT, "translators/gen_lean.py"), GEN, LEAN])
        if rc != 0:
            notes["translator_errors"].append("gen_lean: " + out.strip())
        if os.path.exists(os.path.join(ROOT, "translators/gen_sites.py")):
            rc, out = run([sys.executable, os.path.join(ROOT, "translators/gen_sites.py"), REPO, GEN, LEAN])
            if rc != 0:
                notes["translator_errors"].append("gen_sites: " + out.strip())


def lake_build(targets):
    """returns list of (target, ok, output)"""
    res = []
    with Lock("lake"):
        for t in targets:
            rc, out = run(["lake", "build", t], cwd=LEAN, timeout=3600)
            res.append((t, rc == 0, out))
    return res


def grep_forbidden(modules):
    hits = []
    for m in modules:
        path = os.path.join(LEAN, m.replace(".", "/") + ".lean")
        if not os.path.exists(path):
            continue
        incomment = 0
        for n, line in enumerate(open(path), 1):
            s = line
            # crude comment stripping: block comments and line comments
            out = ""
            i = 0
            while i < len(s):
                if s.startswith("/-", i):
                    incomment += 1; i += 2; continue
                if s.startswith("-/", i) and incomment:
                    incomment -= 1; i += 2; continue
                if incomment == 0 and s.startswith("--", i):
                    break
                if incomment == 0:
                    out += s[i]
                i += 1
            if FORBIDDEN.search(out):
                hits.append(f"{m}:{n}: {line.strip()}")
    return hits


def audit(modules):
    """axioms of every theorem in the given (built) modules"""
    with Lock("lake"):
        rc, out = run(["lake", "env", "lean", "--run", "Audit.lean"] + modules, cwd=LEAN, timeout=1200)
    thms, bad = [], []
    for line in out.splitlines():
        if not line.startswith("{"):
            continue
        d = json.loads(line)
        last = d["theorem"].split(".")[-1]
        if re.match(r"(eq_\d+|eq_def|match_\d+|proof_\d+|_.*|.*\._.*|injEq|sizeOf_spec|noConfusion.*)$", last) or "._" in d["theorem"]:
            continue
        thms.append(d)
        if not set(d["axioms"]) <= ALLOWED_AXIOMS:
            bad.append(d)
    if rc != 0 and not thms:
        bad.append({"theorem": "<audit failed>", "axioms": [out[-500:]]})
    return thms, bad


# ---------------------------------------------------------------- correspondence

def build_race_harness():
    out = os.path.join(BIN, "harness_race")
    rc, o = run(["go", "build", "-race", "-tags", "verif", "-o", out, "."], cwd=os.path.join(ROOT, "harness"), env=GOENV)
    return out if rc == 0 else None


def run_corr(runner_args, seed, tier, timeout, race=False):
    """harness <args> | avdrv ; returns (pairs, stderr) where pairs = [(inline, outline)]"""
    env = dict(os.environ, VERIF_SEED=str(seed), VERIF_TIER=tier, GOMEMLIMIT="6GiB")
    harness = os.path.join(BIN, "harness")
    if race:
        harness = build_race_harness()
        if harness is None:
            return None, "the race-detector build of the harness failed"
        env["GORACE"] = "halt_on_error=1"
    drv = os.path.join(LEAN, ".lake/build/bin/avdrv")
    tmpd = tempfile.mkdtemp(prefix="av.", dir=os.environ.get("TMPDIR", "/var/tmp"))
    try:
        inf = os.path.join(tmpd, "in.jsonl")
        outf = os.path.join(tmpd, "out.jsonl")
        errf = os.path.join(tmpd, "err.txt")
        with open(inf, "w") as fi, open(errf, "w") as fe:
            p = subprocess.run([harness] + runner_args, stdout=fi, stderr=fe, env=env, timeout=timeout)
        herr = open(errf).read()
        if p.returncode != 0:
            # the real code took the whole process down (a panic in a goroutine the harness cannot recover, a fatal
            # runtime error such as a concurrent map write): recover the input it was running
            crash = None
            if "go-fed/activity" in herr or "/repo/" in herr:
                done = [l for l in open(inf).read().split("\n") if l.strip().endswith("}")]
                try:
                    with open(outf, "w") as fo, open(os.devnull, "w") as dn:
                        subprocess.run([harness] + runner_args, stdout=fo, stderr=dn, env=dict(env, VERIF_DRY="1"), timeout=timeout)
                    dry = open(outf).read().splitlines()
                    if len(dry) > len(done):
                        crash = json.loads(dry[len(done)])
                        crash["obs"] = {"processCrash": herr[-2500:]}
                except Exception:
                    crash = None
            if crash is not None:
                return ("CRASH", crash), f"harness exited {p.returncode}"
            return None, f"harness exited {p.returncode}: {herr[-3000:]}"
        with open(inf) as fi, open(outf, "w") as fo, open(errf, "w") as fe:
            p = subprocess.run([drv], stdin=fi, stdout=fo, stderr=fe, timeout=timeout)
        if p.returncode != 0:
            return None, f"avdrv exited {p.returncode}: {open(errf).read()[-3000:]}"
        ins = open(inf).read().splitlines()
        outs = open(outf).read().splitlines()
        if len(ins) != len(outs):
            return None, f"driver answered {len(outs)} of {len(ins)} lines"
        return list(zip(ins, outs)), herr
    finally:
        shutil.rmtree(tmpd, ignore_errors=True)


def write_replay(prop, kind, case_in, case_out, obligation, seed):
    os.makedirs(REPLAYS, exist_ok=True)
    canon = json.dumps(case_in.get("in") if case_in else obligation, sort_keys=True)
    h = hashlib.sha1(canon.encode()).hexdigest()[:12]
    path = os.path.join(REPLAYS, f"{prop}-{h}.json")
    doc = {
        "property": prop, "kind": kind, "runner": case_in.get("runner") if case_in else None,
        "input": case_in.get("in") if case_in else None,
        "observed": case_in.get("obs") if case_in else None,
        "expected": (case_out or {}).get("spec"), "model": (case_out or {}).get("model"),
        "why": (case_out or {}).get("why"),
        "obligation": obligation, "seed": seed, "tree": repo_rev(),
    }
    json.dump(doc, open(path, "w"), indent=1, sort_keys=True)
    return path


def load_known():
    p = os.path.join(ROOT, "known_findings.json")
    if not os.path.exists(p):
        return []
    return [k for k in json.load(open(p)) if "id" in k and k.get("status", "open") == "open"]


# ---------------------------------------------------------------- main

def main():
    args = sys.argv[1:]
    if not args:
        raise SystemExit(__doc__)
    prop = args[0]
    tier = os.environ.get("VERIF_TIER", "quick")
    replay = None
    i = 1
    while i < len(args):
        if args[i] == "--tier":
            tier = args[i + 1]; i += 2
        elif args[i] == "--replay":
            replay = args[i + 1]; i += 2
        else:
            raise SystemExit("unknown argument " + args[i])
    if prop not in PROPS:
        raise SystemExit(f"check: unknown property {prop}")
    cfg = PROPS[prop]
    seed = int(os.environ.get("VERIF_SEED", "1"))
    t0 = time.time()
    notes = {"translator_errors": []}
    violations = []      # (replay_path, suffix)
    known_hit = {}       # id -> text

    build_tools(notes)
    regenerate(notes)
    if cfg.get("custom") == "c15":
        import c15
        cases, fails, cnotes = c15.check(tier, seed, GOENV, log)
        stats = {"evaluations": cases, "agree": cases - len(fails), "spec_ok": cases - len(fails), "distinct_nontrivial": cases, "by_runner": {"c15": {"cases": cases}}}
        notes["translator_errors"] += cnotes
        known = {k["id"]: k for k in load_known() if k["property"] == prop}
        for f in [f for f in fails if f.get("known") in known]:
            known_hit.setdefault(f["known"], known[f["known"]].get("what", ""))
        for kid, what in sorted(known_hit.items()):
            print(f"KNOWN-FINDING: property={prop} {kid} {what}")
        fails = [f for f in fails if f.get("known") not in known]
        for f in fails[:3]:
            path = write_replay(prop, "counterexample", {"in": f["input"], "obs": {"detail": f["detail"]}, "runner": "c15"}, {"why": f["what"]}, None, seed)
            print(f"VIOLATION property={prop} replay={path}")
        rc = 1 if fails else 0
        finish(prop, tier, seed, t0, cfg, stats, [{"note": n} for n in cnotes[:3]], [], rc, notes, [], known_hit, 1, 0 if fails else 1, len(fails))
        if rc == 0:
            log(f"{prop} {tier}: ok — {cases} runs/comparisons, {time.time()-t0:.0f}s")
        sys.exit(rc)
    if "harness_build_error" in notes:
        # the harness is ours; a /repo change that stops it compiling is a broken tie
        path = write_replay(prop, "broken-obligation", None, None,
                            {"correspondence": "harness build", "output": notes["harness_build_error"]}, seed)
        print(f"VIOLATION property={prop} replay={path} no-failing-input-found")
        finish(prop, tier, seed, t0, cfg, {}, [], [], 1, notes, [], known_hit)
        sys.exit(1)

    # ---- proof obligations
    mods = cfg.get("lean_modules", [])
    builds = lake_build(["avdrv"] + mods)
    failed_obl = []
    for t, ok, out in builds:
        if not ok:
            errs = [l for l in out.splitlines() if "error" in l][:8]
            failed_obl.append({"target": t, "errors": errs})
    drv_ok = builds[0][1]
    forb = grep_forbidden(mods + cfg.get("support_modules", []))
    for h in forb:
        failed_obl.append({"target": "forbidden-construct", "errors": [h]})
    built_mods = [t for t, ok, _ in builds[1:] if ok]
    thms, bad_ax = audit(built_mods) if built_mods else ([], [])
    for b in bad_ax:
        failed_obl.append({"target": b["theorem"], "errors": ["axioms: " + ",".join(b["axioms"])]})
    # thorough tier: the compiled proofs are re-checked by the toolchain's independent checker
    rechecked = None
    if tier == "thorough" and built_mods and shutil.which("leanchecker"):
        with Lock("lake"):
            rc, out = run(["lake", "env", "leanchecker"] + built_mods, cwd=LEAN, timeout=3600)
        rechecked = (rc == 0)
        if rc != 0:
            failed_obl.append({"target": "leanchecker", "errors": [out[-600:]]})
    notes["leanchecker"] = rechecked
    # translator errors relevant to this property
    rel = [e for e in notes["translator_errors"] if any(re.search(p, e) for p in cfg.get("translator_scope", [r"."]))]
    for e in rel:
        failed_obl.append({"target": "translator", "errors": [e]})
    expected_thms = cfg.get("theorems", [])
    have = {t["theorem"] for t in thms}
    for name in expected_thms:
        if name not in have:
            failed_obl.append({"target": name, "errors": ["theorem missing or its module did not build"]})
    n_obl = len(expected_thms) if expected_thms else len(thms)
    n_dis = len([n for n in expected_thms if n in have]) if expected_thms else len(thms)
    if failed_obl and not expected_thms:
        n_obl = len(thms) + len(failed_obl)

    # ---- correspondence / search
    stats = {"evaluations": 0, "agree": 0, "spec_ok": 0, "distinct_nontrivial": 0, "known": 0, "by_runner": {}}
    samples, disagreements, specfails = [], [], []
    seen = set()
    if not drv_ok:
        failed_obl.append({"target": "avdrv", "errors": ["model driver did not build"]})
    else:
        runners = cfg.get("runners", [])
        if replay:
            runners = [{"args": [json.load(open(replay))["runner"], "--replay", replay], "timeout": 600}]
        for r in runners:
            rargs = list(r["args"])
            if tier == "thorough":
                rargs += r.get("thorough_args", [])
            if r.get("tiers") and tier not in r["tiers"]:
                continue
            # the limit only guards against a harness that never ends; it is generous so that a loaded machine is
            # not mistaken for one
            limit = max(r.get("timeout", 1500), 3600) * (6 if tier == "thorough" else 1)
            try:
                pairs, err = run_corr(rargs, seed, tier, limit, race=r.get("race", False))
            except subprocess.TimeoutExpired:
                pairs, err = None, f"the correspondence run did not finish within {limit} s"
            if pairs is None:
                failed_obl.append({"target": "correspondence:" + rargs[0], "errors": [err]})
                continue
            if isinstance(pairs, tuple) and pairs[0] == "CRASH":
                cin = pairs[1]; cin["runner"] = rargs[0]
                stats["evaluations"] += 1
                specfails.append((cin, {"agree": False, "specOk": False,
                                        "why": "the implementation crashed the whole process on this input: " + cin["obs"]["processCrash"][:600]}))
                continue
            rs = stats["by_runner"].setdefault(rargs[0], {"cases": 0})
            for li, lo in pairs:
                cin = json.loads(li); cout = json.loads(lo)
                cin["runner"] = rargs[0]
                stats["evaluations"] += 1; rs["cases"] += 1
                if cout.get("agree"): stats["agree"] += 1
                if cout.get("specOk"): stats["spec_ok"] += 1
                if cout.get("nontrivial"):
                    h = hashlib.sha1(json.dumps(cin["in"], sort_keys=True).encode()).digest()[:8]
                    if h not in seen:
                        seen.add(h); stats["distinct_nontrivial"] += 1
                if len(samples) < 3 and cout.get("nontrivial"):
                    samples.append({"in": cin["in"], "obs": cin["obs"]})
                if not cout.get("specOk"):
                    specfails.append((cin, cout))
                elif not cout.get("agree"):
                    disagreements.append((cin, cout))
            if err.strip():
                notes.setdefault("harness_stderr", []).append(err.strip()[-1500:])
            for k, v in (r.get("dist") or {}).items():
                pass
    # known findings
    known = {k["id"]: k for k in load_known() if k["property"] == prop}
    real_fail = []
    for cin, cout in specfails:
        kid = cout.get("known") or ""
        if kid in known and cout.get("agree"):
            stats["known"] += 1
            known_hit.setdefault(kid, known[kid].get("what", ""))
        else:
            real_fail.append((cin, cout))
    for kid, what in sorted(known_hit.items()):
        print(f"KNOWN-FINDING: property={prop} {kid} {what}")

    # ---- decide
    if real_fail:
        # report the smallest few distinct failures
        real_fail.sort(key=lambda p: len(json.dumps(p[0]["in"])))
        reported = set()
        for cin, cout in real_fail:
            key = cout.get("why", "")[:60]
            if key in reported:
                continue
            reported.add(key)
            path = write_replay(prop, "counterexample", cin, cout, None, seed)
            violations.append((path, ""))
            if len(violations) >= 3:
                break
    elif failed_obl or disagreements:
        obligation = {"failed": failed_obl[:10]}
        cin = cout = None
        if disagreements:
            disagreements.sort(key=lambda p: len(json.dumps(p[0]["in"])))
            cin, cout = disagreements[0]
            obligation["correspondence"] = f"{len(disagreements)} of {stats['evaluations']} cases: model ≠ implementation (first/smallest shown); implementation still satisfies the spec monitor on every case explored"
        path = write_replay(prop, "broken-obligation", cin or {"in": None}, cout, obligation, seed)
        violations.append((path, " no-failing-input-found"))
    for path, suffix in violations:
        print(f"VIOLATION property={prop} replay={path}{suffix}")
    rc = 1 if violations else 0
    finish(prop, tier, seed, t0, cfg, stats, samples, thms, rc, notes, failed_obl, known_hit, n_obl, n_dis, len(violations))
    if rc == 0:
        log(f"{prop} {tier}: ok — {n_dis}/{n_obl} obligations, {stats['evaluations']} cases ({stats['distinct_nontrivial']} distinct non-trivial), {time.time()-t0:.0f}s")
    sys.exit(rc)


def finish(prop, tier, seed, t0, cfg, stats, samples, thms, rc, notes, failed_obl, known_hit, n_obl=0, n_dis=0, nviol=0):
    os.makedirs(EVID, exist_ok=True)
    cov = {
        "obligations": max(n_obl, 1), "discharged": n_dis if not failed_obl else min(n_dis, max(n_obl - len(failed_obl), 0)),
        "checker_cmd": "cd lean && lake build " + " ".join(cfg.get("lean_modules", [])) + " && lake env lean --run Audit.lean " + " ".join(cfg.get("lean_modules", [])),
        "trusted_base": cfg.get("trusted_base", []) + [
            "Lean 4.33.0 kernel; axioms allowed: propext, Classical.choice, Quot.sound (audited per theorem this run)",
            "translators T1 (python json) / T2 (go/ast) and the Go correspondence harness + avdrv driver",
        ],
        "theorems": [{"name": t["theorem"], "axioms": t["axioms"]} for t in thms][:200],
        "failed_obligations": failed_obl[:20],
        "evaluations": max(stats.get("evaluations", 0), 0),
        "distinct_nontrivial": stats.get("distinct_nontrivial", 0),
        "traces_validated_against_impl": stats.get("agree", 0),
        "spec_monitor_ok": stats.get("spec_ok", 0),
        "known_finding_cases": stats.get("known", 0),
        "known_findings_hit": sorted(known_hit.keys()),
        "by_runner": stats.get("by_runner", {}),
        "rule": cfg.get("rule", ""),
        "samples": samples if samples else [{"note": "no correspondence case ran"}],
        "exhaustive": bool(cfg.get("exhaustive", {}).get(tier, False)),
        "translator_notes": notes.get("translator_errors", [])[:20],
        "rechecked_by_leanchecker": notes.get("leanchecker"),
        "tree": repo_rev(),
    }
    if cov["discharged"] < 1:
        cov["discharged_count"] = cov.pop("discharged")
    ev = {
        "property_id": prop, "tier": tier, "seed": seed, "level": cfg.get("level", "proof"),
        "coverage": cov, "assumptions": cfg.get("assumptions", []),
        "wall_s": round(time.time() - t0, 1), "violations": nviol,
    }
    json.dump(ev, open(os.path.join(EVID, prop + ".json"), "w"), indent=1)


if __name__ == "__main__":
    main()
