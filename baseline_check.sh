#!/bin/bash
# run the repository's test suite (hooks off) and compare the pass set with /root/.vp/BASELINE.json
export GOFLAGS=-mod=mod GOPROXY=off GOSUMDB=off GOTOOLCHAIN=local
cd /repo && go test -json -vet=off -count=1 -timeout 25m ./... 2>/dev/null | python3 -c '
import sys,json
ok=set()
for l in sys.stdin:
    try: d=json.loads(l)
    except Exception: continue
    if d.get("Action")=="pass" and d.get("Test"): ok.add(d["Package"]+"::"+d["Test"])
base=set(json.load(open("/root/.vp/BASELINE.json"))["stable_pass"])
print("pass:",len(ok),"baseline:",len(base),"missing:",sorted(base-ok)[:10],"extra:",len(ok-base))
sys.exit(0 if base<=ok else 1)'
