#!/bin/bash
# usage: confirm_seed.sh <worktree> <variant>   (worktree contains seeded/<variant>/{patch.diff,meta.json,demo*})
# Confirms: demo passes on the clean tree; with the patch: builds, same test pass-set as baseline, demo fails.
export GOFLAGS=-mod=mod GOPROXY=off GOSUMDB=off GOTOOLCHAIN=local
WT="$1"; V="$2"; S="$WT/seeded/$V"; BASE="$(dirname "$WT")/baseline.pass"
cd "$WT" || exit 2
git checkout -q -- . ; git clean -fdq -- pub streams astool
passset() { go test -json -vet=off -count=1 ./pub/... ./streams/... ./astool/... 2>/dev/null | python3 -c '
import sys,json
ok=set()
for l in sys.stdin:
    try: d=json.loads(l)
    except Exception: continue
    if d.get("Action")=="pass" and d.get("Test"): ok.add(d["Package"]+"::"+d["Test"])
print("\n".join(sorted(ok)))'; }
[ -f $BASE ] || passset > $BASE
CMD=$(python3 -c 'import json,sys; import re; print(re.sub(r"git checkout[^;&#]*(;|&&|$)", "true \\1", re.sub(r"git apply[^;&#]*(;|&&)", "", json.load(open(sys.argv[1]))["demo_cmd"].split("#")[0])).replace("<repo root>", sys.argv[2]).replace("<repo>", sys.argv[2]).replace("<worktree>", sys.argv[2]))' "$S/meta.json" "$WT")
clean_out=$(bash -c "$CMD" 2>&1); 
echo "$clean_out" | grep -q -E '^(FAIL|--- FAIL|panic:)|VIOLATION' && CLEAN=fail || CLEAN=pass
# a demonstration that did not run at all (shell error, nothing compiled) is not a pass
echo "$clean_out" | grep -q -E '^(ok|PASS)' || CLEAN="norun"
git checkout -q -- . ; git clean -fdq -- pub streams astool
git apply "$S/patch.diff" || { echo "RESULT $WT/$V patch-does-not-apply"; exit 1; }
go build ./... >/dev/null 2>&1 && BUILD=ok || BUILD=fail
passset > $BASE.cur.$$
cmp -s $BASE $BASE.cur.$$ && TESTS=same || TESTS=differ
rm -f $BASE.cur.$$
mut_out=$(bash -c "$CMD" 2>&1)
echo "$mut_out" | grep -q -E '^(FAIL|--- FAIL|panic:)|VIOLATION' && MUT=fail || MUT=pass
git checkout -q -- . ; git clean -fdq -- pub streams astool
echo "RESULT $WT/$V clean-demo=$CLEAN build=$BUILD tests=$TESTS mutant-demo=$MUT"
